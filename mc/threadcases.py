"""Thread cases for E6 (mc/threads.py): per property, {label: setup}; setup() reloads the modules under test and returns
(thread bodies, judge).  Each thread works on its OWN objects - none of these APIs promises anything about sharing one
object between threads - so each must simply get what it gets alone (expected values come from the reference models)."""

from . import loader, threads
from .refmodels import P2, P3, P4, RefReader, RefSequencer, RefWriter, dec_number, dec_string, enc_number, enc_string, verification_hash
from . import refmodels as M


def _c07():
    def mk(a, b, ea, eb):
        def setup():
            (m,) = threads.fresh(["eolib.data.number_encoding_utils"])
            fa = (lambda: m.encode_number(a)) if isinstance(a, int) else (lambda: m.decode_number(a))
            fb = (lambda: m.encode_number(b)) if isinstance(b, int) else (lambda: m.decode_number(b))

            def after():
                if m.encode_number(7) != enc_number(7) or m.decode_number(b"\x08\xfe") != 7 or m.encode_number(P3 + 5) != enc_number(P3 + 5):
                    return "after both threads finished, a sequential encode/decode is wrong"

            return [fa, fb], threads.judge_values([ea, eb], after)

        return setup

    return {
        "encode_number(300) || encode_number(253^3+5)": mk(300, P3 + 5, enc_number(300), enc_number(P3 + 5)),
        "encode_number(64009) || decode_number(050607)": mk(P2, b"\x05\x06\x07", enc_number(P2), dec_number(b"\x05\x06\x07")),
        "decode_number(02fe09) || decode_number(fdfdfdfd)": mk(b"\x02\xfe\x09", b"\xfd\xfd\xfd\xfd", dec_number(b"\x02\xfe\x09"), dec_number(b"\xfd\xfd\xfd\xfd")),
    }


def _c08():
    def mk(fa, sa, fb, sb):
        def setup():
            (m,) = threads.fresh(["eolib.data.string_encoding_utils"])

            def body(fn, s):
                def run():
                    buf = bytearray(s)
                    getattr(m, fn)(buf)
                    return bytes(buf)

                return run

            ref = {"encode_string": enc_string, "decode_string": dec_string}

            def after():
                buf = bytearray(b"Hello~")
                m.encode_string(buf)
                if bytes(buf) != enc_string(b"Hello~"):
                    return "after both threads finished, a sequential encode_string is wrong"

            return [body(fa, sa), body(fb, sb)], threads.judge_values([ref[fa](sa), ref[fb](sb)], after)

        return setup

    return {
        "encode_string || encode_string": mk("encode_string", b"Hello, World", "encode_string", b"abc~PQ"),
        "encode_string || decode_string": mk("encode_string", b"O}P\xff\x00", "decode_string", b"zyxwv"),
        "decode_string || decode_string (same content)": mk("decode_string", b"Vult-r", "decode_string", b"Vult-r"),
        "encode_string(ab~) || encode_string(PQ) (short)": mk("encode_string", b"ab~", "encode_string", b"PQ"),
        "encode_string(ab) || decode_string(ab) (short, same content)": mk("encode_string", b"ab", "decode_string", b"ab"),
    }


def _c10():
    def mk(fa, da, fb, db, args=()):
        def setup():
            (m,) = threads.fresh(["eolib.encrypt.encryption_utils"])

            def body(fn, d):
                def run():
                    buf = bytearray(d)
                    getattr(m, fn)(buf, *args) if fn == "swap_multiples" else getattr(m, fn)(buf)
                    return bytes(buf)

                return run

            def ref(fn, d):
                return M.swap_multiples(d, *args) if fn == "swap_multiples" else getattr(M, fn)(d)

            def after():
                buf = bytearray(b"\x06\x09\x01\x03\x0c")
                m.swap_multiples(buf, 3)
                b2 = bytearray(range(7))
                m.interleave(b2)
                if bytes(buf) != M.swap_multiples(b"\x06\x09\x01\x03\x0c", 3) or bytes(b2) != M.interleave(bytes(range(7))):
                    return "after both threads finished, a sequential call is wrong"

            return [body(fa, da), body(fb, db)], threads.judge_values([ref(fa, da), ref(fb, db)], after)

        return setup

    return {
        "interleave || interleave": mk("interleave", bytes(range(9)), "interleave", b"\x01\x02\x03\x04"),
        "interleave || deinterleave (same length)": mk("interleave", bytes(range(6)), "deinterleave", bytes(range(10, 16))),
        "swap_multiples || swap_multiples": mk("swap_multiples", b"\x06\x09\x01\x03\x0c\x0f", "swap_multiples", b"\x02\x03\x06\x05\x09", (3,)),
        "flip_msb || flip_msb": mk("flip_msb", b"\x00\x80\x01\xff", "flip_msb", b"\x7f\x81"),
    }


def _c11():
    def mk(a, b):
        def setup():
            (m,) = threads.fresh(["eolib.encrypt.server_verification_utils"])
            h = m.server_verification_hash

            def after():
                for c in (0, 9, 777, a, b, 11092110):
                    if h(c) != verification_hash(c):
                        return f"after both threads finished, server_verification_hash({c}) = {h(c)} in a sequential call"

            return [lambda: h(a), lambda: h(b)], threads.judge_values([verification_hash(a), verification_hash(b)], after)

        return setup

    return {"hash(12345) || hash(9)": mk(12345, 9), "hash(0) || hash(11092110)": mk(0, 11092110), "hash(20) || hash(20)": mk(20, 20)}


def _writer_body(W, mode, ops):
    def run():
        w = W()
        w.string_sanitization_mode = mode
        for name, *a in ops:
            getattr(w, name)(*a)
        return bytes(w.to_bytearray())

    return run


def _writer_ref(mode, ops):
    r = RefWriter()
    r.san = mode
    for name, *a in ops:
        getattr(r, name)(*a)
    return bytes(r.buf)


def _c09():
    A = [("add_string", "aÿ"), ("add_short", 300), ("add_fixed_encoded_string", "ab", 4, True), ("add_char", 7)]
    B = [("add_string", "ÿz"), ("add_int", P3), ("add_encoded_string", "Hello"), ("add_fixed_string", "ÿ", 2, True)]

    def mk(ma, mb):
        def setup():
            mods = threads.fresh(["eolib.data.number_encoding_utils", "eolib.data.string_encoding_utils", "eolib.data.eo_writer"])
            W = mods[-1].EoWriter

            def after():
                if _writer_body(W, True, A)() != _writer_ref(True, A):
                    return "after both threads finished, a sequential writer is wrong"

            return [_writer_body(W, ma, A), _writer_body(W, mb, B)], threads.judge_values([_writer_ref(ma, A), _writer_ref(mb, B)], after)

        return setup

    def mk_short(ma, opsa, mb, opsb):
        def setup():
            mods = threads.fresh(["eolib.data.number_encoding_utils", "eolib.data.string_encoding_utils", "eolib.data.eo_writer"])
            W = mods[-1].EoWriter
            return [_writer_body(W, ma, opsa), _writer_body(W, mb, opsb)], threads.judge_values([_writer_ref(ma, opsa), _writer_ref(mb, opsb)])

        return setup

    return {
        "writer (sanitising) || writer (not sanitising)": mk(True, False),
        "writer || writer (both sanitising, same first string)": mk(True, True),
        "add_string(y-diaeresis) sanitising || not sanitising (short)": mk_short(True, [("add_string", "ÿ")], False, [("add_string", "ÿ")]),
        "add_short(300) || add_char(7) (short)": mk_short(False, [("add_short", 300)], False, [("add_char", 7)]),
        "add_fixed_string padded || add_encoded_string (short)": mk_short(True, [("add_fixed_string", "ÿ", 2, True)], True, [("add_encoded_string", "aÿ")]),
    }


def _c05():
    def body(R, data, ops):
        def run():
            r = R(data)
            out = []
            for name, *a in ops:
                if name == "mode":
                    r.chunked_reading_mode = a[0]
                else:
                    v = getattr(r, name)(*a)
                    out.append(bytes(v) if isinstance(v, (bytes, bytearray, memoryview)) else v)
            return out + [r.position, r.remaining]

        return run

    def ref(data, ops):
        r = RefReader(data)
        out = []
        for name, *a in ops:
            if name == "mode":
                r.chunked = a[0]
            else:
                v = getattr(r, name)(*a)
                out.append(bytes(v) if isinstance(v, (bytes, bytearray)) else v)
        return out + [r.pos, r.remaining]

    A = (b"\x01\x02\xff\x41\x42\xff\x05", [("mode", True), ("get_short",), ("get_int",), ("next_chunk",), ("get_string",), ("next_chunk",), ("get_char",)])
    B = (b"\x41\xff\x42\x43", [("get_fixed_string", 2, True), ("mode", True), ("get_encoded_string",), ("get_bytes", 3)])

    def setup():
        mods = threads.fresh(["eolib.data.number_encoding_utils", "eolib.data.string_encoding_utils", "eolib.data.eo_reader"])
        R = mods[-1].EoReader
        return [body(R, *A), body(R, *B)], threads.judge_values([ref(*A), ref(*B)], lambda: None if body(R, *A)() == ref(*A) else "after both threads finished, a sequential reader is wrong")

    def setup_same():
        mods = threads.fresh(["eolib.data.number_encoding_utils", "eolib.data.string_encoding_utils", "eolib.data.eo_reader"])
        R = mods[-1].EoReader
        return [body(R, *A), body(R, *A)], threads.judge_values([ref(*A), ref(*A)])

    SA = (b"\x01\xff\x02", [("mode", True), ("get_char",), ("next_chunk",), ("get_char",)])
    SB = (b"\x41\x42", [("get_string",)])

    def setup_short():
        mods = threads.fresh(["eolib.data.number_encoding_utils", "eolib.data.string_encoding_utils", "eolib.data.eo_reader"])
        R = mods[-1].EoReader
        return [body(R, *SA), body(R, *SB)], threads.judge_values([ref(*SA), ref(*SB)])

    return {"reader || reader (different data)": setup, "reader || reader (same bytes object)": setup_same, "chunked reader || plain reader (short)": setup_short}


def _c13():
    def body(P, S, start, ops):
        def run():
            p = P(S.AccountReplySequenceStart.from_value(start))
            out = []
            for op in ops:
                if op == "next":
                    out.append(p.next_sequence())
                else:
                    p.set_sequence_start(S.InitSequenceStart.from_init_values(*op))
            return out

        return run

    def ref(start, ops):
        r = RefSequencer(start)
        out = []
        for op in ops:
            if op == "next":
                out.append(r.next_sequence())
            else:
                r.set_start(op[0] * 7 + op[1] - 13)
        return out

    A = (5, ["next"] * 3 + [(30, 4)] + ["next"] * 9)
    B = (200, ["next", (1, 2), "next", "next", (40, 9), "next"])

    def setup():
        mods = threads.fresh(["eolib.packet.sequence_start", "eolib.packet.packet_sequencer"])
        S, P = mods[0], mods[1].PacketSequencer
        return [body(P, S, *A), body(P, S, *B)], threads.judge_values([ref(*A), ref(*B)])

    SA, SB = (5, ["next", "next"]), (9, ["next", (1, 2), "next"])

    def setup_short():
        mods = threads.fresh(["eolib.packet.sequence_start", "eolib.packet.packet_sequencer"])
        S, P = mods[0], mods[1].PacketSequencer
        return [body(P, S, *SA), body(P, S, *SB)], threads.judge_values([ref(*SA), ref(*SB)])

    return {"sequencer || sequencer": setup, "sequencer || sequencer (short)": setup_short}


def _c14():
    from enum import IntEnum

    def setup():
        (m,) = threads.fresh(["eolib.protocol.protocol_enum_meta"])
        meta = m.ProtocolEnumMeta
        ns = meta.__prepare__("E", (IntEnum,))
        ns["A"] = 1
        ns["B"] = 2
        E = meta("E", (IntEnum,), ns)

        def body(n):
            def run():
                v = E(n)
                return (int(v), v.name, isinstance(v, E), v == n, hash(v) == hash(n), v is E(n) if n in (1, 2) else True)

            return run

        exp = lambda n: (n, {1: "A", 2: "B"}.get(n, f"Unrecognized({n})"), True, True, True, True)  # noqa: E731

        def after():
            if [x.name for x in E] != ["A", "B"] or E(1) is not E.A or E(7).name != "Unrecognized(7)":
                return "after both threads finished, the enum class is not what it was declared to be"

        return [body(7), body(9)], threads.judge_values([exp(7), exp(9)], after)

    def setup2():
        bodies, _ = setup()
        return setup_with(1, 7)

    def setup_with(a, b):
        (m,) = threads.fresh(["eolib.protocol.protocol_enum_meta"])
        meta = m.ProtocolEnumMeta
        ns = meta.__prepare__("E", (IntEnum,))
        ns["A"] = 1
        ns["B"] = 2
        E = meta("E", (IntEnum,), ns)

        def body(n):
            def run():
                v = E(n)
                return (int(v), v.name, isinstance(v, E))

            return run

        exp = lambda n: (n, {1: "A", 2: "B"}.get(n, f"Unrecognized({n})"), True)  # noqa: E731
        return [body(a), body(b)], threads.judge_values([exp(a), exp(b)])

    return {"E(7) || E(9)": setup, "E(1) || E(7)": lambda: setup_with(1, 7), "E(7) || E(7)": lambda: setup_with(7, 7)}


def _c12():
    import threading

    tl = threading.local()

    class Draws:
        """Stand-in for the module-level random source: every thread draws from its own scripted list."""

        def randrange(self, a, b=None, step=1):
            lo, hi = (0, a) if b is None else (a, b)
            v = tl.draws.pop(0) if tl.draws else 0
            return lo + v % max(1, hi - lo)

        def randint(self, a, b):
            return self.randrange(a, b + 1)

        def choice(self, seq):
            return seq[self.randrange(0, len(seq))]

        def random(self):
            return 0.5

    def body(m, kind, draws):
        def run():
            tl.draws = list(draws)
            g = {"init": m.InitSequenceStart, "ping": m.PingSequenceStart, "account": m.AccountReplySequenceStart}[kind].generate()
            return (g.value, getattr(g, "seq1", None), getattr(g, "seq2", None))

        return run

    def mk(ka, da, kb, db):
        def fresh_module():
            (m,) = threads.fresh(["eolib.packet.sequence_start"])
            if getattr(m, "random", None) is not None:
                m.random = Draws()
            for name in ("randrange", "randint", "choice"):
                if hasattr(m, name):
                    setattr(m, name, getattr(Draws(), name))
            return m

        def setup():
            m = fresh_module()
            alone = [threads.Alone(threads.alone(body(m, ka, da))), threads.Alone(threads.alone(body(m, kb, db)))]  # sequentially, fresh module
            m = fresh_module()
            return [body(m, ka, da), body(m, kb, db)], threads.judge_values(alone)

        return setup

    return {
        "init generate || ping generate": mk("init", [879, 3], "ping", [1756, 251]),
        "init generate || init generate (same draws)": mk("init", [0, 0], "init", [0, 0]),
        "ping generate || account generate": mk("ping", [5, 0], "account", [239]),
        "init generate (lowest value) || init generate (highest value)": mk("init", [0, 0], "init", [1756, 0]),
        "ping generate (highest value) || ping generate (lowest value)": mk("ping", [1756, 0], "ping", [0, 0]),
    }


_gen_cache = {}


def _generated_classes():
    """A small tree generated once per process by the real generator: a chunked struct nested in a struct that has
    non-chunked and chunked parts (the classes of C15's statement)."""
    if "cls" not in _gen_cache:
        from . import genpipe
        from .specs import brk, chunked, field, struct

        files = {"net": [
            struct("ThInner", [chunked([field("name", "string"), brk(), field("t", "char")])]),
            struct("ThOuter", [field("a", "char"), chunked([field("s", "string"), brk(), field("inner", "ThInner")]), field("tail", "string")]),
        ]}
        work = loader.scratch_dir("threads-gen")
        genpipe.write_tree(files, work + "/xml", n_families=1)
        err = genpipe.run_generator(work + "/xml", work + "/out")
        if err is not None:
            raise loader.HarnessError(f"thread cases: the generator rejected the tree: {err}")
        loader.point_generated_at(work + "/out")
        inner = getattr(loader.gen("eolib.protocol._generated.net.th_inner"), "ThInner")
        outer = getattr(loader.gen("eolib.protocol._generated.net.th_outer"), "ThOuter")
        _gen_cache["cls"] = (inner, outer)
    return _gen_cache["cls"]


def _c15():
    def ser(outer, inner, mode, s):
        def run():
            W = loader.lib("eolib.data.eo_writer").EoWriter
            w = W()
            w.string_sanitization_mode = mode
            outer.serialize(w, outer(a=1, s=s, inner=inner(name=s, t=2), tail=s))
            return (bytes(w.to_bytearray()), bool(w.string_sanitization_mode))

        return run

    def de(outer, mode, data):
        def run():
            R = loader.lib("eolib.data.eo_reader").EoReader
            r = R(data)
            r.chunked_reading_mode = mode
            o = outer.deserialize(r)
            return (o.a, o.s, o.inner.name, o.inner.t, o.tail, o.byte_size, bool(r.chunked_reading_mode))

        return run

    def mk(make_bodies):
        def setup():
            inner, outer = _generated_classes()
            bodies = make_bodies(inner, outer)
            alone = [threads.Alone(threads.alone(b)) for b in bodies]  # what each gets alone
            return bodies, threads.judge_values(alone)

        return setup

    data = b"\x02a\xffy\xffb\xff\x03tail"
    return {
        "generated serialize (entry sanitising) || serialize (entry not sanitising)": mk(lambda i, o: [ser(o, i, True, "aÿ"), ser(o, i, False, "ÿb")]),
        "generated deserialize (entry chunked) || deserialize (entry not chunked)": mk(lambda i, o: [de(o, True, data), de(o, False, data)]),
        "generated serialize || deserialize": mk(lambda i, o: [ser(o, i, False, "ÿ"), de(o, False, data)]),
    }


_CASES = {"C15": _c15, "C12": _c12, "C05": _c05, "C07": _c07, "C08": _c08, "C09": _c09, "C10": _c10, "C11": _c11, "C13": _c13, "C14": _c14}


def cases(pid):
    return _CASES[pid]()
