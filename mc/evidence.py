"""Evidence files: /verif/evidence/<ID>.json, rewritten by every run."""

import json
import os

ROOT = os.path.dirname(os.path.dirname(os.path.abspath(__file__)))
EVIDENCE_DIR = os.path.join(ROOT, "evidence")
REPLAY_DIR = os.path.join(ROOT, "out", "replays")


def jsonable(x):
    if isinstance(x, (bytes, bytearray, memoryview)):
        return {"hex": bytes(x).hex()}
    if isinstance(x, dict):
        return {str(k): jsonable(v) for k, v in x.items()}
    if isinstance(x, (list, tuple)):
        return [jsonable(v) for v in x]
    if isinstance(x, (set, frozenset)):
        return sorted((jsonable(v) for v in x), key=repr)
    if isinstance(x, (str, int, float, bool)) or x is None:
        if isinstance(x, int) and not isinstance(x, bool):
            return int(x)
        return x
    return repr(x)


def unjson(x):
    """Inverse of jsonable for the forms replay files use (hex-wrapped bytes, lists)."""
    if isinstance(x, dict):
        if set(x) == {"hex"}:
            return bytes.fromhex(x["hex"])
        return {k: unjson(v) for k, v in x.items()}
    if isinstance(x, list):
        return [unjson(v) for v in x]
    return x


def write(property_id, tier, seed, level, coverage, wall_s, violations, assumptions):
    os.makedirs(EVIDENCE_DIR, exist_ok=True)
    doc = {
        "property_id": property_id,
        "tier": tier,
        "seed": int(seed),
        "level": level,
        "coverage": jsonable(coverage),
        "assumptions": list(assumptions),
        "wall_s": round(float(wall_s), 3),
        "violations": int(violations),
    }
    path = os.path.join(EVIDENCE_DIR, f"{property_id}.json")
    tmp = path + ".tmp"
    with open(tmp, "w") as f:
        json.dump(doc, f, indent=1, sort_keys=False)
        f.write("\n")
    os.replace(tmp, path)
    return path
