"""Reference models M1-M8 (DESIGN section 4).

Deliberately naive transcriptions of the property statements / docstrings.  Nothing here imports
eolib or the generator.  The only shared dependency is the standard library's cp1252 codec.
"""

P1, P2, P3, P4 = 253, 253**2, 253**3, 253**4
LIMITS = {"byte": 256, "char": P1, "short": P2, "three": P3, "int": P4}
SIZES = {"byte": 1, "char": 1, "short": 2, "three": 3, "int": 4}


# ---------------------------------------------------------------- M1 number codec
def enc_number(n):
    out = []
    for i in range(4):
        if i == 0 or n >= 253**i:
            out.append((n // 253**i) % 253 + 1 if i < 3 else n // P3 + 1)
        else:
            out.append(0xFE)
    return bytes(out)


def dec_number(bs):
    total = 0
    for i in range(min(len(bs), 4)):
        if bs[i] == 0xFE:
            break
        total += (bs[i] - 1) * 253**i
    return total


# ---------------------------------------------------------------- M2 string codec
def _t(c, flip):
    if not 0x22 <= c <= 0x7E:
        return c
    f = 0
    if flip:
        f = 0x2E if c < 0x50 else -0x2E
    return 0x9F - c - f


def enc_string(s):
    L = len(s)
    odd = L % 2 == 1
    return bytes(_t(s[L - 1 - j], odd != ((L - 1 - j) % 2 == 1)) for j in range(L))


def dec_string(s):
    L = len(s)
    odd = L % 2 == 1
    return bytes(_t(s[L - 1 - j], odd != (j % 2 == 1)) for j in range(L))


def cp1252(s):
    return s.encode("cp1252", "replace")


def uncp1252(b):
    return bytes(b).decode("cp1252", "replace")


# ---------------------------------------------------------------- M3 reference reader
class RefReader:
    """State (data, pos, chunked, chunk_start); the documented chunked-reading model."""

    def __init__(self, data):
        self.data = bytes(data)
        self.pos = 0
        self.chunked = False
        self.chunk_start = 0

    def clone(self):
        r = RefReader(self.data)
        r.pos, r.chunked, r.chunk_start = self.pos, self.chunked, self.chunk_start
        return r

    @property
    def next_break(self):
        i = self.data.find(b"\xff", self.chunk_start)
        return len(self.data) if i < 0 else i

    @property
    def remaining(self):
        if self.chunked:
            return max(0, self.next_break - self.pos)
        return len(self.data) - self.pos

    def read(self, k):
        k = min(k, self.remaining)
        if k <= 0:
            return b""
        out = self.data[self.pos : self.pos + k]
        self.pos += k
        return out

    def next_chunk(self):
        if not self.chunked:
            raise RuntimeError("not chunked")
        nb = self.next_break
        self.pos = nb + 1 if nb < len(self.data) else nb
        self.chunk_start = self.pos

    def slice(self, index=None, length=None):
        if index is None:
            index = self.pos
        if length is None:
            length = max(0, len(self.data) - index)
        if index < 0 or length < 0:
            raise ValueError("negative")
        begin = min(index, len(self.data))
        end = min(begin + length, len(self.data))
        return RefReader(self.data[begin:end])

    # typed reads
    def get_byte(self):
        b = self.read(1)
        return b[0] if b else 0

    def get_bytes(self, k):
        return self.read(k)

    def get_char(self):
        return dec_number(self.read(1))

    def get_short(self):
        return dec_number(self.read(2))

    def get_three(self):
        return dec_number(self.read(3))

    def get_int(self):
        return dec_number(self.read(4))

    def get_number(self, typ):
        if typ == "byte":
            return self.get_byte()
        return dec_number(self.read(SIZES[typ]))

    def get_string(self):
        return uncp1252(self.read(self.remaining))

    def get_encoded_string(self):
        return uncp1252(dec_string(self.read(self.remaining)))

    @staticmethod
    def _strip(b):
        i = b.find(b"\xff")
        return b if i < 0 else b[:i]

    def get_fixed_string(self, n, padded=False):
        if n < 0:
            raise ValueError("negative length")
        b = self.read(n)
        if padded:
            b = self._strip(b)
        return uncp1252(b)

    def get_fixed_encoded_string(self, n, padded=False):
        if n < 0:
            raise ValueError("negative length")
        b = dec_string(self.read(n))
        if padded:
            b = self._strip(b)
        return uncp1252(b)


# ---------------------------------------------------------------- M4 reference writer
class RefWriter:
    def __init__(self):
        self.buf = bytearray()
        self.san = False

    def __len__(self):
        return len(self.buf)

    def add_byte(self, v):
        if v > 0xFF:
            raise ValueError("byte")
        self.buf.append(v)

    def add_bytes(self, b):
        self.buf.extend(b)

    def add_number(self, typ, v):
        if typ == "byte":
            return self.add_byte(v)
        if v >= LIMITS[typ]:
            raise ValueError(typ)
        self.buf.extend(enc_number(v)[: SIZES[typ]])

    def add_char(self, v):
        self.add_number("char", v)

    def add_short(self, v):
        self.add_number("short", v)

    def add_three(self, v):
        self.add_number("three", v)

    def add_int(self, v):
        self.add_number("int", v)

    def _image(self, s):
        b = cp1252(s)
        if self.san:
            b = b.replace(b"\xff", b"\x79")
        return b

    @staticmethod
    def _check(s, n, padded):
        if padded:
            if len(s) > n:
                raise ValueError("too long")
        elif len(s) != n:
            raise ValueError("wrong length")

    def add_string(self, s):
        self.buf.extend(self._image(s))

    def add_encoded_string(self, s):
        self.buf.extend(enc_string(self._image(s)))

    def add_fixed_string(self, s, n, padded=False):
        self._check(s, n, padded)
        b = self._image(s)
        if padded:
            b = b + b"\xff" * (n - len(b))
        self.buf.extend(b)

    def add_fixed_encoded_string(self, s, n, padded=False):
        self._check(s, n, padded)
        b = self._image(s)
        if padded:
            b = b + b"\xff" * (n - len(b))
        self.buf.extend(enc_string(b))


# ---------------------------------------------------------------- M5 encryption primitives
def interleave(d):
    n = len(d)
    out = []
    lo, hi = 0, n - 1
    while lo <= hi:
        out.append(d[lo])
        if lo != hi:
            out.append(d[hi])
        lo += 1
        hi -= 1
    return bytes(out)


def deinterleave(d):
    n = len(d)
    front = [d[i] for i in range(0, n, 2)]
    back = [d[i] for i in range(1, n, 2)]
    return bytes(front + back[::-1])


def flip_msb(d):
    return bytes(b if b & 0x7F == 0 else b ^ 0x80 for b in d)


def swap_multiples(d, m):
    if m < 0:
        raise ValueError("negative multiple")
    if m == 0:
        return bytes(d)
    out = list(d)
    i = 0
    while i < len(out):
        if out[i] % m == 0:
            j = i
            while j < len(out) and out[j] % m == 0:
                j += 1
            out[i:j] = out[i:j][::-1]
            i = j
        else:
            i += 1
    return bytes(out)


# ---------------------------------------------------------------- M6 verification hash
def trem(a, b):
    """C-style truncating remainder."""
    r = abs(a) % abs(b)
    return -r if a < 0 else r


def verification_hash(challenge):
    c = challenge + 1
    return 110905 + (trem(c, 9) + 1) * trem(11092004 - c, (trem(c, 11) + 1) * 119) * 119 + trem(c, 2004)


# ---------------------------------------------------------------- M7 sequencer
class RefSequencer:
    def __init__(self, start):
        self.start = start
        self.n = 0

    def next_sequence(self):
        r = self.start + self.n % 10
        self.n += 1
        return r

    def set_start(self, s):
        self.start = s
