"""Multi-file specification trees for the real-loader checks (C18, C20)."""

from . import corpus, e3, genpipe, specs
from .specs import array, brk, case, chunked, enum, field, length, packet, struct, switch


def corpus_tree():
    """Every corpus program in its own host, in one tree."""
    files = {}
    seen_types = set()
    fam = 0
    for i, (ident, body, host, extra) in enumerate(corpus.programs()):
        kind, file = host.split(":")
        files.setdefault(file, [])
        for n in extra:
            if n.get("name") not in seen_types:
                seen_types.add(n.get("name"))
                # extra types live in 'net' so that every file can use them
                files.setdefault("net", []).append(n)
        body = [k.copy() for k in body]
        if kind == "struct":
            files[file].append(struct("C" + "".join(w.capitalize() for w in ident.split(":")[1].replace("-", " ").split()), body, comment=f"corpus {ident}"))
        else:
            fam += 1
            files[file].append(packet(f"Fam{fam}", "Act", body))
    return files, max(fam, 4)


def cross_file_trees():
    """Trees with cross-file type references and names that resemble directory names."""
    out = []
    # 1: net types used by client/server packets, pub type used by pub/server, map using net
    out.append(("cross-basic", {
        "net": [struct("Coords", [field("x", "char"), field("y", "char")]), enum("Direction", "char", [("Down", 0), ("Left", 1)])],
        "net/client": [packet("Fam1", "Act", [field("at", "Coords"), field("dir", "Direction")])],
        "net/server": [packet("Fam1", "Act", [array("path", "Coords"), field("dir", "Direction:short", optional="true")])],
        "pub": [struct("ItemRecord", [length("n", "char"), field("name", "string", length="n"), field("kind", "E1")])],
        "pub/server": [struct("DropRecord", [field("item", "ItemRecord"), field("rate", "short")])],
        "map": [struct("MapRow", [field("y", "char"), array("tiles", "Coords", length="2")])],
    }))
    # 2: parent-directory types whose module names begin with the child directory name
    out.append(("dir-prefix-names", {
        "net": [struct("ServerSettings", [field("jail", "short")]), struct("ClientVersion", [field("major", "char")]),
                enum("ServerReply", "short", [("Ok", 1), ("No", 2)])],
        "net/client": [packet("Fam1", "Act", [field("v", "ClientVersion"), field("s", "ServerSettings", optional="true")])],
        "net/server": [packet("Fam1", "Act", [field("r", "ServerReply"), switch("r", [case("Ok", [field("s", "ServerSettings")]), case("No", [])])])],
        "pub": [struct("ServerRecordBase", [field("id", "short")]), struct("PubServerInfo", [field("x", "char")])],
        "pub/server": [struct("ShopRecord", [field("base", "ServerRecordBase"), field("info", "PubServerInfo")])],
        "map": [struct("MapNetLink", [field("v", "ClientVersion")])],
    }))
    # 3: pub using net/server types, enum override across files, optional + switch (two names from one module)
    out.append(("cross-deep", {
        "net/server": [enum("ReplyCode", "short", [("Ok", 1), ("Busy", 2)]), struct("ServerInfo", [field("code", "ReplyCode"), field("note", "string", optional="true")]),
                       packet("Fam2", "Act", [field("info", "ServerInfo")])],
        "net/client": [packet("Fam2", "Act", [field("code", "ReplyCode:char"), field("tail", "blob")])],
        "pub": [struct("Usage", [field("code", "ReplyCode:int"), field("maybe", "char", optional="true"), field("k", "char", optional="true")])],
        "pub/server": [struct("InnRecord", [field("u", "Usage", optional="true")])],
        "net": [struct("NetCommon", [chunked([field("name", "string"), brk(), array("codes", "E2", delimited="true")])])],
        "map": [struct("Sign", [field("common", "NetCommon"), field("e", "E3")])],
    }))
    # 4: many types in one file, acronym-ish names (snake-casing of runs of capitals), comments with markup
    out.append(("names", {
        "net": [struct("NPCInfo", [field("id", "short")], comment="An NPC <b>info</b> & more \\d"), struct("HTTPServerV2", [field("x", "char")]),
                enum("AdminLevel", "char", [("Player", 0), ("HGM", 4)]), struct("A", [field("l", "AdminLevel")])],
        "net/client": [packet("Fam3", "Act", [field("npc", "NPCInfo"), field("a", "A")])],
        "net/server": [packet("Fam3", "Other", [field("h", "HTTPServerV2")])],
        "map": [], "pub": [], "pub/server": [],
    }))
    # 5: a protocol.xml at the root of the tree (its types are re-exported by eolib.protocol itself)
    out.append(("root-file", {
        "": [struct("RootCoords", [field("x", "char"), field("y", "char")]), enum("RootDirection", "char", [("Down", 0), ("Up", 1)]),
             struct("BigRoot", [field("x", "short"), field("d", "RootDirection")])],
        "net": [struct("UsesRoot", [field("at", "RootCoords")])],
        "net/client": [packet("Fam1", "Act", [field("u", "UsesRoot")])],
        "net/server": [], "map": [struct("MapUsesRoot", [array("cs", "RootCoords")])], "pub": [], "pub/server": [],
    }))
    # 6: type names whose module names are Python SOFT keywords (match / case / type are ordinary identifiers and importable
    # module names), referenced from other files
    out.append(("soft-keyword-names", {
        "net": [enum("Type", "char", [("One", 1), ("Two", 2)]), struct("Match", [field("t", "Type"), field("n", "char")]), struct("Case", [field("m", "Match")])],
        "net/client": [packet("Fam1", "Act", [field("m", "Match"), field("t", "Type:short")])],
        "net/server": [packet("Fam1", "Act", [array("cs", "Case", length="2")])],
        "map": [struct("MapType", [field("t", "Type")])], "pub": [struct("Soft", [field("c", "Case", optional="true")])], "pub/server": [],
    }))
    return out


COMMENT_TEXTS = {
    "plain": "A plain comment.",
    "backslash-u": "Stored under C:\\users\\new by the official client.",
    "escapes": "Escapes like \\N{DASH}, \\x41, \\d and \\0 appear verbatim.",
    "triple-quote": 'The client shows """quoted""" text here.',
    "quote-end": 'The value is "unknown"',
    "backslash-end": "Ends with a backslash \\",
    "markup": "Uses <b>markup</b> & entities like &amp; and 100% {braces}.",
    "non-ascii": "Währung in € - ünïcödé naïve café",
    "multiline": "First line.\nSecond line with a \\ and a \" quote.\n\nFourth line.",
}


def comment_trees():
    """One tree per comment text; the text is attached to every element kind that can carry a <comment>."""
    from .specs import N, dummy, length

    out = []
    for tag, text in COMMENT_TEXTS.items():
        def c():
            return N("comment", text=text)

        e = enum("Mood", "char", [("Calm", 0), ("Angry", 1)])
        e.kids.insert(0, c())
        for v in e.kids[1:]:
            v.kids.append(c())
        body = [field("m", "Mood"), length("n", "char"), field("s", "string", length="n"), array("xs", "short", length="2")]
        for ins in body:
            ins.kids.append(c())
        case1 = case("Calm", [field("why", "string")])
        case1.kids.insert(0, c())
        case1.kids[1].kids.append(c())
        st = struct("Commented", body + [switch("m", [case1, case("Angry", [])])])
        st.kids.insert(0, c())
        pk = packet("Fam1", "Act", [field("c", "Commented"), dummy("char", "0")])
        pk.kids.insert(0, c())
        pk.kids[1].kids.append(c())
        out.append((f"comment:{tag}", {"net": [e, st], "net/client": [pk], "pub": [struct("PubCommented", [field("v", "char")], comment=text)]}, 1))
    return out


def reference_matrix_trees():
    """One tree per ordered pair (user directory A, defining directory B), A != B: a struct in A has a field whose
    type is declared in B.  Every tree also has a packet in net/client and net/server, as real trees do."""
    out = []
    dirs = list(specs.FILES)
    for a in dirs:
        for b in dirs:
            if a == b:
                continue
            tag = (a + "_uses_" + b).replace("/", "-")
            da = "".join(w.capitalize() for w in a.replace("/", " ").split())
            db = "".join(w.capitalize() for w in b.replace("/", " ").split())
            files = {d: [] for d in dirs}
            files[b].append(struct(f"Def{db}", [field("v", "short")]))
            files[b].append(enum(f"Kind{db}", "char", [("One", 1), ("Two", 2)]))
            files[a].append(struct(f"Use{da}", [field("d", f"Def{db}"), field("k", f"Kind{db}:short", optional="true")]))
            files["net/client"].append(packet("Fam1", "Act", [field("n", "char")]))
            files["net/server"].append(packet("Fam1", "Act", [field("n", "char")]))
            out.append((f"ref:{tag}", files, 1))
    return out


def all_trees(tier):
    files, nf = corpus_tree()
    trees = [("corpus", files, nf)]
    for name, f in cross_file_trees():
        trees.append((name, f, 4))
    trees.append(("minimal", {}, 1))
    trees += reference_matrix_trees()
    trees += comment_trees()
    return trees
