"""Keyword call forms of the documented public API.

The docstrings name every parameter (Args: ...); calling by keyword is a legal call form, so each
function must behave the same whether its documented parameters are passed positionally or by name.
check(group) -> list of descriptions of disagreements (empty on a correct tree).
"""

from . import loader


def _outcome(fn):
    try:
        return ("ok", fn())
    except Exception as e:  # noqa: BLE001
        return ("raised", type(e).__name__)


def _inplace(fn_name, mod, data, **kw):
    buf = bytearray(data)
    r = getattr(mod, fn_name)(**dict(kw, **{_FIRST[fn_name]: buf}))
    return (r, bytes(buf))


def _inplace_pos(fn_name, mod, data, *a):
    buf = bytearray(data)
    r = getattr(mod, fn_name)(buf, *a)
    return (r, bytes(buf))


_FIRST = {"encode_string": "bytes", "decode_string": "bytes", "interleave": "data", "deinterleave": "data", "flip_msb": "data", "swap_multiples": "data"}


def check(group):
    bad = []

    def same(label, pos, kw):
        a, b = _outcome(pos), _outcome(kw)
        if a != b:
            bad.append(f"{label}: positional call gives {a!r}, the documented keyword form gives {b!r}")

    if group == "number":
        m = loader.lib("eolib.data.number_encoding_utils")
        for n in (0, 253, 64009, 253**3 + 5):
            same(f"encode_number(number={n})", lambda: m.encode_number(n), lambda: m.encode_number(number=n))
        for b in (b"", b"\x05", b"\x02\xfe\x09", b"\x05\x06\x07\x08"):
            same(f"decode_number(encoded_number={b.hex()})", lambda: m.decode_number(b), lambda: m.decode_number(encoded_number=b))
    elif group == "string":
        m = loader.lib("eolib.data.string_encoding_utils")
        for fn in ("encode_string", "decode_string"):
            for d in (b"", b"Hello", b"P}~\xff"):
                same(f"{fn}(bytes={d.hex()})", lambda: _inplace_pos(fn, m, d), lambda: _inplace(fn, m, d))
    elif group == "encrypt":
        m = loader.lib("eolib.encrypt.encryption_utils")
        for fn in ("interleave", "deinterleave", "flip_msb"):
            for d in (b"", b"\x00\x01\x80\x81\x05", bytes(range(7))):
                same(f"{fn}(data={d.hex()})", lambda: _inplace_pos(fn, m, d), lambda: _inplace(fn, m, d))
        for d, mult in ((b"\x06\x09\x01", 3), (b"\x01\x02", 0), (b"\x03", -1)):
            same(f"swap_multiples(data={d.hex()}, multiple={mult})", lambda: _inplace_pos("swap_multiples", m, d, mult), lambda: _inplace("swap_multiples", m, d, multiple=mult))
    elif group == "hash":
        m = loader.lib("eolib.encrypt.server_verification_utils")
        for c in (0, 12345, 11092110, 11092479):
            same(f"server_verification_hash(challenge={c})", lambda: m.server_verification_hash(c), lambda: m.server_verification_hash(challenge=c))
    elif group == "reader":
        R = loader.lib("eolib.data.eo_reader").EoReader
        data = b"\x01\x02\xff\x41\x42\xff\x05"

        def run(style):
            r = R(data) if style == "pos" else R(data=data)
            out = []
            out.append(bytes(r.get_bytes(1)) if style == "pos" else bytes(r.get_bytes(length=1)))
            s = r.slice(1, 4) if style == "pos" else r.slice(index=1, length=4)
            out.append((s.remaining, bytes(s.get_bytes(9)) if style == "pos" else bytes(s.get_bytes(length=9))))
            out.append(r.get_fixed_string(3, True) if style == "pos" else r.get_fixed_string(length=3, padded=True))
            out.append(r.get_fixed_encoded_string(2, False) if style == "pos" else r.get_fixed_encoded_string(length=2, padded=False))
            out.append((r.position, r.remaining))
            return out

        same("EoReader(data=...) / slice(index=, length=) / get_bytes(length=) / get_fixed_*string(length=, padded=)", lambda: run("pos"), lambda: run("kw"))
    elif group == "writer":
        W = loader.lib("eolib.data.eo_writer").EoWriter

        def run(style):
            w = W()
            if style == "pos":
                w.add_byte(255); w.add_bytes(b"\x00\xff"); w.add_char(252); w.add_short(253); w.add_three(64009); w.add_int(253**3)
                w.add_fixed_string("aÿ", 4, True); w.add_fixed_encoded_string("ab", 2, False); w.add_encoded_string("xy"); w.add_string("z")
            else:
                w.add_byte(value=255); w.add_bytes(bytes=b"\x00\xff"); w.add_char(number=252); w.add_short(number=253)
                w.add_three(number=64009); w.add_int(number=253**3)
                w.add_fixed_string(string="aÿ", length=4, padded=True); w.add_fixed_encoded_string(string="ab", length=2, padded=False)
                w.add_encoded_string(string="xy"); w.add_string(string="z")
            return bytes(w.to_bytearray())

        same("EoWriter.add_*(documented keyword names)", lambda: run("pos"), lambda: run("kw"))
    elif group == "sequence":
        m = loader.lib("eolib.packet.sequence_start")
        P = loader.lib("eolib.packet.packet_sequencer").PacketSequencer
        same("InitSequenceStart.from_init_values(seq1=, seq2=)", lambda: m.InitSequenceStart.from_init_values(110, 122).value, lambda: m.InitSequenceStart.from_init_values(seq1=110, seq2=122).value)
        same("PingSequenceStart.from_ping_values(seq1=, seq2=)", lambda: m.PingSequenceStart.from_ping_values(1005, 126).value, lambda: m.PingSequenceStart.from_ping_values(seq1=1005, seq2=126).value)
        same("AccountReplySequenceStart.from_value(value=)", lambda: m.AccountReplySequenceStart.from_value(22).value, lambda: m.AccountReplySequenceStart.from_value(value=22).value)

        def seq(style):
            s0, s1 = m.AccountReplySequenceStart.from_value(7), m.AccountReplySequenceStart.from_value(100)
            p = P(s0) if style == "pos" else P(start=s0)
            a = p.next_sequence()
            p.set_sequence_start(s1) if style == "pos" else p.set_sequence_start(start=s1)
            return (a, p.next_sequence())

        same("PacketSequencer(start=) / set_sequence_start(start=)", lambda: seq("pos"), lambda: seq("kw"))
    else:
        raise loader.HarnessError(f"unknown keyword-form group {group}")
    return bad
