"""G1/G3: import the code under test straight from the repository working tree.

`import eolib` fails in the pinned checkout (the eo-protocol submodule is empty, so
`eolib.protocol._generated` does not exist).  The *shim loader* registers empty package objects for
the four packages whose `__init__` star-imports generated code; every real module file then imports
normally.  Generated code is made importable by pointing `eolib.protocol._generated.__path__` at a
scratch output directory.
"""

import importlib
import os
import shutil
import sys
import tempfile
import types

REPO = os.path.abspath(os.environ.get("VERIF_REPO", "/repo"))
SRC = os.path.join(REPO, "src")

_SHIMMED = ("eolib", "eolib.protocol", "eolib.protocol.net", "eolib.protocol._generated")


class HarnessError(Exception):
    """Our machinery is wrong or lost control of nondeterminism (exit 2, never a VIOLATION)."""


def setup_paths():
    sys.dont_write_bytecode = True
    for p in (REPO, SRC):
        while p in sys.path:
            sys.path.remove(p)
    sys.path.insert(0, REPO)
    sys.path.insert(0, SRC)


def _shim(name, path):
    mod = types.ModuleType(name)
    mod.__path__ = [path]
    mod.__package__ = name
    mod.__file__ = None
    sys.modules[name] = mod
    if "." in name:
        parent, _, leaf = name.rpartition(".")
        setattr(sys.modules[parent], leaf, mod)
    return mod


def install_shims(generated_dir=None):
    """Register the shim packages.  `generated_dir` is where `eolib.protocol._generated` lives."""
    setup_paths()
    for name in list(sys.modules):
        if name == "eolib" or name.startswith("eolib."):
            mod = sys.modules[name]
            f = getattr(mod, "__file__", None)
            if name in _SHIMMED or (f and not os.path.abspath(f).startswith(SRC)):
                del sys.modules[name]
    _shim("eolib", os.path.join(SRC, "eolib"))
    _shim("eolib.protocol", os.path.join(SRC, "eolib", "protocol"))
    _shim("eolib.protocol.net", os.path.join(SRC, "eolib", "protocol", "net"))
    _shim("eolib.protocol._generated", generated_dir or os.path.join(scratch_root(), "no-generated"))


def point_generated_at(path):
    """Forget every generated module and make `eolib.protocol._generated` resolve under `path`."""
    for name in list(sys.modules):
        if name.startswith("eolib.protocol._generated.") or name == "eolib.protocol.net.packet":
            del sys.modules[name]
    gen = sys.modules.get("eolib.protocol._generated")
    if gen is None:
        install_shims(path)
        gen = sys.modules["eolib.protocol._generated"]
    gen.__path__ = [path]
    for attr in list(vars(gen)):
        if not attr.startswith("__"):
            delattr(gen, attr)
    net = sys.modules["eolib.protocol.net"]
    if hasattr(net, "packet"):
        delattr(net, "packet")
    importlib.invalidate_caches()


class ImportViolation(Exception):
    """A hand-written module of the code under test cannot be imported in this interpreter: that is an observation about
    the code (every property presupposes its module can be imported), reported as a violation by mc/cli.py."""

    def __init__(self, module, text):
        super().__init__(module, text)
        self.module, self.text = module, text


def lib(module):
    """Import a static library module, e.g. lib('eolib.data.eo_reader')."""
    if "eolib" not in sys.modules:
        install_shims()
    try:
        m = importlib.import_module(module)
    except HarnessError:
        raise
    except Exception as e:  # noqa: BLE001
        raise ImportViolation(module, f"{type(e).__name__}: {e}") from e
    f = getattr(m, "__file__", None)
    if f and not os.path.abspath(f).startswith(REPO):
        raise HarnessError(f"{module} was imported from {f}, not from {REPO}")
    return m


def gen(module):
    """Import a GENERATED module (it lives in the scratch output directory)."""
    return importlib.import_module(module)


def generator():
    setup_paths()
    m = importlib.import_module("protocol_code_generator.generate.code_generator")
    if not os.path.abspath(m.__file__).startswith(REPO):
        raise HarnessError(f"generator imported from {m.__file__}, not from {REPO}")
    return m


_scratch_root = None


def scratch_root():
    """One scratch directory per process tree (removed by `cleanup_scratch`)."""
    global _scratch_root
    if _scratch_root is None or not os.path.isdir(_scratch_root):
        base = "/dev/shm" if os.path.isdir("/dev/shm") and os.access("/dev/shm", os.W_OK) else None
        _sweep_stale(base or tempfile.gettempdir())
        _scratch_root = tempfile.mkdtemp(prefix="eolib-verif-", dir=base)
    return _scratch_root


def _sweep_stale(base, max_age_s=6 * 3600):
    """Remove scratch roots left behind by killed runs (older than six hours)."""
    import time

    try:
        for name in os.listdir(base):
            if name.startswith("eolib-verif-"):
                p = os.path.join(base, name)
                if time.time() - os.path.getmtime(p) > max_age_s:
                    shutil.rmtree(p, ignore_errors=True)
    except OSError:
        pass


def scratch_dir(prefix="d"):
    return tempfile.mkdtemp(prefix=prefix + "-", dir=scratch_root())


def cleanup_scratch():
    global _scratch_root
    if _scratch_root and os.path.isdir(_scratch_root):
        shutil.rmtree(_scratch_root, ignore_errors=True)
    _scratch_root = None
