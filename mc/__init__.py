"""Model-checking machinery for the eolib-python properties (see /verif/DESIGN.md)."""
