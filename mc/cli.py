"""G6: ./check <ID> --tier quick|thorough | --replay <path>"""

import argparse
import hashlib
import importlib
import json
import os
import sys
import time
import traceback

from . import evidence, findings, loader

MAX_REPORTED = 25


def _load(pid):
    return importlib.import_module(f"mc.props.{pid.lower()}")


def _replay_path(pid, key):
    h = hashlib.sha1(key.encode("utf-8", "replace")).hexdigest()[:12]
    return os.path.join(evidence.REPLAY_DIR, f"{pid}-{h}{'-OO' if sys.flags.optimize >= 2 else ''}.json")


def main(argv=None):
    ap = argparse.ArgumentParser()
    ap.add_argument("property")
    ap.add_argument("--tier", choices=["quick", "thorough"], default=os.environ.get("VERIF_TIER", "quick"))
    ap.add_argument("--replay")
    ap.add_argument("--optpass", action="store_true", help="internal: this process IS the optimised-interpreter pass")
    args = ap.parse_args(argv)
    pid = args.property.upper()
    seed = int(os.environ.get("VERIF_SEED", "0") or 0)
    try:
        mod = _load(pid)
        if args.replay:
            return _do_replay(mod, pid, args.replay)
        return _do_check(mod, pid, args.tier, seed, args.optpass)
    except loader.HarnessError as e:
        print(f"HARNESS-ERROR property={pid} {e}")
        traceback.print_exc()
        return 2
    except BaseException as e:  # noqa: BLE001 - an uncaught exception must never look like a verdict
        if isinstance(e, SystemExit):
            raise
        print(f"HARNESS-ERROR property={pid} uncaught {type(e).__name__}: {e}")
        traceback.print_exc()
        return 2
    finally:
        loader.cleanup_scratch()


def _reproduces_in_fresh_process(pid, path):
    """The plain replay (no explorer) in a new interpreter: exit 1 means the case violates."""
    import subprocess

    p = subprocess.run(
        [sys.executable, *_opt_flags(), "-B", "-m", "mc.cli", pid, "--replay", path],
        cwd=evidence.ROOT, capture_output=True, text=True, timeout=600,
    )
    if p.returncode not in (0, 1):
        raise loader.HarnessError(f"replay of {path} failed with exit {p.returncode}: {p.stdout[-500:]} {p.stderr[-500:]}")
    return p.returncode == 1


def _opt_flags():
    return ["-OO"] if sys.flags.optimize >= 2 else ["-O"] if sys.flags.optimize == 1 else []


def _start_optpass(pid):
    """The interpreter's optimisation level is an environment answer with two values the code under test can observe
    (assert statements and docstrings vanish under -OO).  The whole quick-tier exploration is repeated in a -OO
    interpreter, concurrently with the main pass; its verdicts are merged by _finish_optpass."""
    import subprocess

    if os.environ.get("VERIF_NO_OPTPASS") or sys.flags.optimize:
        return None
    env = dict(os.environ, VERIF_OPTPASS="1")
    return subprocess.Popen(
        [sys.executable, "-OO", "-B", "-m", "mc.cli", pid, "--tier", "quick", "--optpass"],
        cwd=evidence.ROOT, env=env, stdout=subprocess.PIPE, stderr=subprocess.STDOUT, text=True,
    )


def _finish_optpass(proc, pid, main_keys):
    """-> (summary dict for the evidence, [(key, what, replay path)] of violations only the -OO pass saw)"""
    out, _ = proc.communicate(timeout=4 * 3600)
    result = None
    for line in out.splitlines():
        if line.startswith("OPTPASS-RESULT "):
            result = json.loads(line[len("OPTPASS-RESULT "):])
    if proc.returncode not in (0, 1) or result is None:
        raise loader.HarnessError(f"the -OO pass failed with exit {proc.returncode}: {out[-1500:]}")
    extra = [(v["key"], v["what"], v["replay"]) for v in result["violations"] if v["key"] not in main_keys]
    summary = {k: result[k] for k in ("interpreter_flags", "tier", "wall_seconds", "evaluations", "violations_total", "known_findings_seen")}
    summary["violations_only_under_OO"] = len(extra)
    return summary, extra


def _do_replay(mod, pid, path):
    with open(path) as f:
        doc = json.load(f)
    flags = doc.get("python_flags") or []
    if "-OO" in flags and sys.flags.optimize < 2:
        # recorded by the optimised-interpreter pass: replay it in the same kind of interpreter
        os.execv(sys.executable, [sys.executable, "-OO", "-B", "-m", "mc.cli", pid, "--replay", path])
    case = evidence.unjson(doc["case"])
    if isinstance(case, dict) and case.get("import_module"):
        try:
            loader.lib(case["import_module"])
            what = None
        except loader.ImportViolation as e:
            what = f"importing {e.module} raises {e.text}"
    elif isinstance(case, dict) and case.get("threads"):
        from . import threads

        loader.install_shims()
        what = threads.replay_case(pid, case)
    else:
        what = mod.replay(case)
    if what:
        print(f"replay reproduces: property={pid} key={doc.get('key')}\n  {what}")
        print(f"VIOLATION property={pid} replay={path}")
        return 1
    print(f"replay does not violate: property={pid} key={doc.get('key')}")
    return 0


def _do_check(mod, pid, tier, seed, optpass=False):
    t0 = time.time()
    child = None if optpass else _start_optpass(pid)
    try:
        return _do_check_inner(mod, pid, tier, seed, optpass, child, t0)
    finally:
        if child is not None and child.poll() is None:
            child.kill()


def _do_check_inner(mod, pid, tier, seed, optpass, child, t0):
    try:
        res = mod.run(tier, seed)
    except loader.ImportViolation as e:
        flags = " (interpreter started with -OO)" if sys.flags.optimize >= 2 else ""
        res = {
            "coverage": {"evaluations": 0, "distinct_nontrivial": 0, "exhaustive": False, "module_not_importable": e.module},
            "violations": [{"key": f"import:{e.module}", "what": f"the module under test cannot be imported{flags}: importing {e.module} raises {e.text}", "case": {"import_module": e.module}}],
        }
    coverage = res["coverage"]
    violations = list(res.get("violations", []))
    # E6: the properties about hand-written classes and functions are also explored under thread schedules
    from . import threadcases, threads

    if pid in threadcases._CASES and "module_not_importable" not in coverage:
        tcov, tviol = threads.run_cases(pid, tier)
        coverage = dict(coverage, thread_schedules=tcov)
        violations += tviol
    known = findings.known_keys(pid)

    # one entry per canonical key
    by_key = {}
    for v in violations:
        by_key.setdefault(v["key"], v)

    unknown, seen_known = [], []
    for key, v in by_key.items():
        if key in known:
            seen_known.append((key, known[key]))
        else:
            unknown.append(v)

    # G4: a violation is reported only if it reproduces from its replay record
    os.makedirs(evidence.REPLAY_DIR, exist_ok=True)
    reported, unconfirmed = [], []
    tried = 0
    for v in unknown:
        # confirm up to MAX_REPORTED violations; keep looking (up to 150 candidates) while none has been confirmed
        if len(reported) >= MAX_REPORTED or tried >= 150 or (tried >= MAX_REPORTED and reported):
            break
        tried += 1
        path = _replay_path(pid, v["key"])
        # candidates: the case itself, then alternatives that carry more context (e.g. the history that ran
        # just before it in the same process, for code under test that keeps module-level state)
        for cand in [v["case"]] + list(v.get("alt_cases", [])):
            case = evidence.jsonable(cand)
            with open(path, "w") as f:
                json.dump({"property": pid, "key": v["key"], "what": v["what"], "python_flags": _opt_flags(), "case": case}, f, indent=1)
            if _reproduces_in_fresh_process(pid, path):
                break
        else:
            # context-dependent (the code under test keeps state between calls and no recorded context reproduces
            # it): not reported as a verdict on its own; only if NO violation of this run reproduces is the run unusable
            unconfirmed.append(v)
            try:
                os.remove(path)
            except OSError:
                pass
            continue
        reported.append((v, path))

    if unknown and not reported:
        v = unconfirmed[0]
        raise loader.HarnessError(
            f"no violation reproduced from its replay file in a fresh process (unowned nondeterminism?): {v['key']}: {v['what']}"
        )
    for v in unconfirmed:
        print(f"  unconfirmed (did not reproduce standalone, not counted): {v['key']}")
    unknown = [v for v in unknown if v not in unconfirmed]
    if optpass:
        # this process is the -OO pass: hand the verdicts to the parent, which prints and records them
        doc = {
            "interpreter_flags": "-OO", "tier": tier, "wall_seconds": round(time.time() - t0, 1),
            "evaluations": coverage.get("evaluations"), "violations_total": len(unknown),
            "known_findings_seen": [k for k, _ in seen_known],
            "violations": [{"key": v["key"], "what": v["what"], "replay": path} for v, path in reported],
        }
        print("OPTPASS-RESULT " + json.dumps(doc))
        return 1 if unknown else 0
    for key, what in seen_known:
        print(f"KNOWN-FINDING: property={pid} {key}: {what}")
    for v, path in reported:
        print(f"  {pid} violated: {v['what']}")
        print(f"VIOLATION property={pid} replay={path}")
    if len(unknown) > len(reported):
        print(f"  (+{len(unknown) - len(reported)} further distinct violations not written out)")

    coverage = dict(coverage)
    n_total = len(unknown)
    if child is not None:
        summary_oo, extra = _finish_optpass(child, pid, {v["key"] for v in unknown})
        coverage["optimised_interpreter_pass"] = summary_oo
        for key, what, path in extra:
            print(f"  {pid} violated (only in an interpreter started with -OO): {what}")
            print(f"VIOLATION property={pid} replay={path}")
        n_total += len(extra)
        for k in summary_oo["known_findings_seen"]:
            if k not in {kk for kk, _ in seen_known}:
                print(f"KNOWN-FINDING: property={pid} {k}: (seen by the -OO pass only) {known.get(k, '')}")
    coverage["known_findings_seen"] = [k for k, _ in seen_known]
    coverage["violation_keys"] = [v["key"] for v in unknown[:MAX_REPORTED]]
    wall = time.time() - t0
    evidence.write(pid, tier, seed, mod.LEVEL, coverage, wall, n_total, getattr(mod, "ASSUMPTIONS", []))
    summary = {k: v for k, v in coverage.items() if isinstance(v, (int, float, bool, str)) and k != "rule"}
    print(f"{pid} tier={tier} seed={seed} wall={wall:.1f}s violations={n_total} known={len(seen_known)} {summary}")
    return 1 if n_total else 0


if __name__ == "__main__":
    sys.exit(main())
