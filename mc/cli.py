"""G6: ./check <ID> --tier quick|thorough | --replay <path>"""

import argparse
import hashlib
import importlib
import json
import os
import sys
import time
import traceback

from . import evidence, findings, loader

MAX_REPORTED = 25


def _load(pid):
    return importlib.import_module(f"mc.props.{pid.lower()}")


def _replay_path(pid, key):
    h = hashlib.sha1(key.encode("utf-8", "replace")).hexdigest()[:12]
    return os.path.join(evidence.REPLAY_DIR, f"{pid}-{h}.json")


def main(argv=None):
    ap = argparse.ArgumentParser()
    ap.add_argument("property")
    ap.add_argument("--tier", choices=["quick", "thorough"], default=os.environ.get("VERIF_TIER", "quick"))
    ap.add_argument("--replay")
    args = ap.parse_args(argv)
    pid = args.property.upper()
    seed = int(os.environ.get("VERIF_SEED", "0") or 0)
    try:
        mod = _load(pid)
        if args.replay:
            return _do_replay(mod, pid, args.replay)
        return _do_check(mod, pid, args.tier, seed)
    except loader.HarnessError as e:
        print(f"HARNESS-ERROR property={pid} {e}")
        traceback.print_exc()
        return 2
    except BaseException as e:  # noqa: BLE001 - an uncaught exception must never look like a verdict
        if isinstance(e, SystemExit):
            raise
        print(f"HARNESS-ERROR property={pid} uncaught {type(e).__name__}: {e}")
        traceback.print_exc()
        return 2
    finally:
        loader.cleanup_scratch()


def _reproduces_in_fresh_process(pid, path):
    """The plain replay (no explorer) in a new interpreter: exit 1 means the case violates."""
    import subprocess

    p = subprocess.run(
        [sys.executable, "-B", "-m", "mc.cli", pid, "--replay", path],
        cwd=evidence.ROOT, capture_output=True, text=True, timeout=600,
    )
    if p.returncode not in (0, 1):
        raise loader.HarnessError(f"replay of {path} failed with exit {p.returncode}: {p.stdout[-500:]} {p.stderr[-500:]}")
    return p.returncode == 1


def _do_replay(mod, pid, path):
    with open(path) as f:
        doc = json.load(f)
    what = mod.replay(evidence.unjson(doc["case"]))
    if what:
        print(f"replay reproduces: property={pid} key={doc.get('key')}\n  {what}")
        print(f"VIOLATION property={pid} replay={path}")
        return 1
    print(f"replay does not violate: property={pid} key={doc.get('key')}")
    return 0


def _do_check(mod, pid, tier, seed):
    t0 = time.time()
    res = mod.run(tier, seed)
    coverage = res["coverage"]
    violations = res.get("violations", [])
    known = findings.known_keys(pid)

    # one entry per canonical key
    by_key = {}
    for v in violations:
        by_key.setdefault(v["key"], v)

    unknown, seen_known = [], []
    for key, v in by_key.items():
        if key in known:
            seen_known.append((key, known[key]))
        else:
            unknown.append(v)

    # G4: a violation is reported only if it reproduces from its replay record
    os.makedirs(evidence.REPLAY_DIR, exist_ok=True)
    reported, unconfirmed = [], []
    tried = 0
    for v in unknown:
        # confirm up to MAX_REPORTED violations; keep looking (up to 150 candidates) while none has been confirmed
        if len(reported) >= MAX_REPORTED or tried >= 150 or (tried >= MAX_REPORTED and reported):
            break
        tried += 1
        path = _replay_path(pid, v["key"])
        # candidates: the case itself, then alternatives that carry more context (e.g. the history that ran
        # just before it in the same process, for code under test that keeps module-level state)
        for cand in [v["case"]] + list(v.get("alt_cases", [])):
            case = evidence.jsonable(cand)
            with open(path, "w") as f:
                json.dump({"property": pid, "key": v["key"], "what": v["what"], "case": case}, f, indent=1)
            if _reproduces_in_fresh_process(pid, path):
                break
        else:
            # context-dependent (the code under test keeps state between calls and no recorded context reproduces
            # it): not reported as a verdict on its own; only if NO violation of this run reproduces is the run unusable
            unconfirmed.append(v)
            try:
                os.remove(path)
            except OSError:
                pass
            continue
        reported.append((v, path))

    if unknown and not reported:
        v = unconfirmed[0]
        raise loader.HarnessError(
            f"no violation reproduced from its replay file in a fresh process (unowned nondeterminism?): {v['key']}: {v['what']}"
        )
    for v in unconfirmed:
        print(f"  unconfirmed (did not reproduce standalone, not counted): {v['key']}")
    unknown = [v for v in unknown if v not in unconfirmed]
    for key, what in seen_known:
        print(f"KNOWN-FINDING: property={pid} {key}: {what}")
    for v, path in reported:
        print(f"  {pid} violated: {v['what']}")
        print(f"VIOLATION property={pid} replay={path}")
    if len(unknown) > len(reported):
        print(f"  (+{len(unknown) - len(reported)} further distinct violations not written out)")

    coverage = dict(coverage)
    coverage["known_findings_seen"] = [k for k, _ in seen_known]
    coverage["violation_keys"] = [v["key"] for v in unknown[:MAX_REPORTED]]
    wall = time.time() - t0
    evidence.write(pid, tier, seed, mod.LEVEL, coverage, wall, len(unknown), getattr(mod, "ASSUMPTIONS", []))
    summary = {k: v for k, v in coverage.items() if isinstance(v, (int, float, bool, str)) and k != "rule"}
    print(f"{pid} tier={tier} seed={seed} wall={wall:.1f}s violations={len(unknown)} known={len(seen_known)} {summary}")
    return 1 if unknown else 0


if __name__ == "__main__":
    sys.exit(main())
