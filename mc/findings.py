"""G7: known findings.  The file is committed and never written at run time."""

import json
import os

PATH = os.path.join(os.path.dirname(os.path.dirname(os.path.abspath(__file__))), "known_findings.json")


def load():
    if not os.path.exists(PATH):
        return {"known": [], "fixed": []}
    with open(PATH) as f:
        return json.load(f)


def known_keys(property_id):
    """{key: description} of findings recorded as known (not fixed) for the property."""
    return {e["key"]: e.get("what", e["key"]) for e in load().get("known", []) if e["property"] == property_id}
