"""The character alphabet of the string properties, exhaustively: every Unicode code point as a one-character string
(U+0000..U+10FFFF, lone surrogates included - they are legal Python str values and encode to '?'), plus the family
base character x combining mark (every windows-1252 character followed by each of U+0300..U+036F), which is where a
normalising implementation would differ from a per-character one.  Jobs are code-point ranges so that a pool can
split the sweep; strings(job) enumerates one job."""

STEP = 8192
MARKS = range(0x300, 0x370)


def _bases():
    out = []
    for b in range(256):
        try:
            out.append(bytes([b]).decode("cp1252"))
        except UnicodeDecodeError:
            pass
    return out


def jobs(tier="quick"):
    out = [("range", lo, min(lo + STEP, 0x110000)) for lo in range(0, 0x110000, STEP)]
    bases = _bases()
    out += [("marks", i, min(i + 32, len(bases))) for i in range(0, len(bases), 32)]
    return out


def strings(job):
    kind, lo, hi = job
    if kind == "range":
        for cp in range(lo, hi):
            yield chr(cp)
    else:
        bases = _bases()[lo:hi]
        for b in bases:
            for m in MARKS:
                yield b + chr(m)


def total():
    return 0x110000 + len(_bases()) * len(MARKS)
