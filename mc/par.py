"""G5: deterministic sharding over a fork pool; results are merged in shard order."""

import multiprocessing as mp
import os

WORKERS = int(os.environ.get("VERIF_WORKERS", "0")) or min(16, os.cpu_count() or 1)

_fn = None


def _call(arg):
    return _fn(arg)


def pmap(fn, shards, workers=None):
    """Apply fn to every shard; returns results in shard order.  fn must be deterministic."""
    global _fn
    shards = list(shards)
    workers = workers or WORKERS
    if workers <= 1 or len(shards) <= 1:
        return [fn(s) for s in shards]
    _fn = fn
    ctx = mp.get_context("fork")
    # maxtasksperchild=1: every shard runs in a process freshly forked from the parent, so a shard's behaviour
    # is a function of the shard alone even if the code under test keeps module-level state
    with ctx.Pool(min(workers, len(shards)), maxtasksperchild=1) as pool:
        return pool.map(_call, shards, chunksize=1)


def ranges(lo, hi, n):
    """Split [lo, hi) into at most n contiguous ranges."""
    total = hi - lo
    if total <= 0:
        return []
    n = max(1, min(n, total))
    step = -(-total // n)
    return [(a, min(hi, a + step)) for a in range(lo, hi, step)]


def chunks(seq, n):
    """Split a list into at most n contiguous chunks (deterministic)."""
    seq = list(seq)
    return [seq[a:b] for a, b in ranges(0, len(seq), n)]
