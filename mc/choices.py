"""E2: stateless depth-first choice-tree enumerator (environment answers, fault points).

The code under test runs to completion; every time it asks the environment something the harness
answers from the recorded prefix and then takes alternative 0, and schedules every other alternative
for a later run.  A replayed prefix that is out of range is a hard HarnessError (divergence).
An optional deviation bound limits the number of non-default (non-zero) choices per execution.
"""

from .loader import HarnessError


class Chooser:
    def __init__(self, prefix=()):
        self.prefix = list(prefix)
        self.trace = []  # (choice, number of options)

    def choose(self, n, label=None):
        if n <= 0:
            raise HarnessError("choose() over an empty menu")
        i = len(self.trace)
        if i < len(self.prefix):
            c = self.prefix[i]
            if not 0 <= c < n:
                raise HarnessError(f"replay diverged at choice {i}: recorded {c}, menu size {n} ({label})")
        else:
            c = 0
        self.trace.append((c, n))
        return c

    @property
    def choices(self):
        return [c for c, _ in self.trace]


def explore(run, roots=((),), bound=None):
    """Yield (choices, result) for every execution.  run(chooser) -> result."""
    stack = [list(r) for r in reversed(list(roots))]
    while stack:
        prefix = stack.pop()
        ch = Chooser(prefix)
        result = run(ch)
        if len(ch.trace) < len(prefix):
            raise HarnessError(f"replay diverged: execution made {len(ch.trace)} choices, prefix has {len(prefix)}")
        yield ch.choices, result
        devs = sum(1 for c in ch.choices[: len(prefix)] if c != 0)
        # schedule alternatives of every choice made beyond the prefix (deepest first => DFS order)
        pending = []
        d = devs
        for i in range(len(prefix), len(ch.trace)):
            c, n = ch.trace[i]
            if bound is None or d + 1 <= bound:
                for alt in range(1, n):
                    pending.append(ch.choices[:i] + [alt])
            if c != 0:
                d += 1
        stack.extend(reversed(pending))
