"""C11 - server verification hash equals the game client's arithmetic (E4, complete domain)."""

from .. import loader, par
from ..refmodels import P3, P4, verification_hash

ID = "C11"
LEVEL = "exploration"
ASSUMPTIONS = [
    "reference M6: the published formula evaluated with a C-style truncating remainder (sign of the dividend)",
]
DOC_BOUND = 11_092_110


def _h():
    """The function under test; a raised exception is an observation (a string no hash equals), not a harness failure."""
    f = loader.lib("eolib.encrypt.server_verification_utils").server_verification_hash

    def call(c):
        try:
            return f(c)
        except Exception as e:  # noqa: BLE001
            return f"raised {type(e).__name__}: {e}"

    return call


def _hostile_decimal_context():
    """The calling thread's decimal context is ambient state integer arithmetic must not depend on."""
    import decimal

    decimal.setcontext(decimal.Context(prec=5, Emax=9, Emin=-9))


def _shard(rng):
    a, b = rng[:2]
    loader.install_shims()
    if len(rng) > 2 and rng[2]:
        _hostile_decimal_context()
    h = _h()
    bad, nbad, distinct = [], 0, set()
    for c in range(a, b):
        v = h(c)
        if v != verification_hash(c) or isinstance(v, str) or (c <= DOC_BOUND and not 0 <= v < P4):
            nbad += 1
            if len(bad) < 3:
                bad.append(c)
        if (c & 0x3FF) == 0:
            distinct.add(v)
    return b - a, nbad, bad, len(distinct)


SEQ = (0, 1, 8, 10, 2003, 100000, 11090813, 11092003, 11092004, 11092005, 11092110, 11092111, 11092479, 11093312, P3 - 1)


SEQ4 = (0, 2003, 11092003, 11092004, 11092479, P3 - 1)


def check_seq(seq):
    for i, c in enumerate(seq):
        w = replay({"challenge": c})
        if w:
            return f"in call sequence {list(seq)} at #{i}: {w}"
    return None


def _all_sequences():
    import itertools

    yield from itertools.product(SEQ, repeat=3)
    yield from itertools.product(SEQ4, repeat=4)


def run(tier, seed):
    import itertools

    loader.install_shims()
    seq_bad, n_seq = [], 0
    for seq in _all_sequences():
        n_seq += 1
        w = check_seq(seq)
        if w and len(seq_bad) < 3:
            seq_bad.append((list(seq), w, n_seq))
    res = par.pmap(_shard, par.ranges(0, P3, par.WORKERS * 4))
    n = sum(r[0] for r in res)
    nbad = sum(r[1] for r in res)
    firsts = [c for r in res for c in r[2]]
    h = _h()
    violations = [
        {"key": f"challenge:{c}", "what": replay({"challenge": c}), "case": {"challenge": c}} for c in firsts
    ]
    # the whole domain once more under a hostile ambient decimal context (precision 5)
    res2 = par.pmap(_shard, [r + (True,) for r in par.ranges(0, P3, par.WORKERS * 4)])
    n_ctx = sum(r[0] for r in res2)
    nbad += sum(r[1] for r in res2)
    for c in [c for r in res2 for c in r[2]][:3]:
        violations.append({"key": f"challenge-under-decimal-context:{c}", "what": replay({"challenge": c, "decimal": True}), "case": {"challenge": c, "decimal": True}})
    for seq, w, upto in seq_bad:
        violations.append({"key": "hash-sequence", "what": w, "case": {"seq": seq}, "alt_cases": [{"seq": seq, "upto": upto}]})
    coverage = {
        "call_sequences": n_seq,
        "evaluations": n + n_seq + n_ctx,
        "evaluations_under_hostile_decimal_context": n_ctx,
        "distinct_nontrivial": n,
        "mismatching_challenges": nbad,
        "domain": [0, P3],
        "exhaustive": n == P3,
        "rule": "every challenge 0 <= c < 253^3 (each integer is a distinct case); hash compared with the truncating-"
        "remainder reference; for c <= 11,092,110 additionally 0 <= hash < 253^4; the whole domain a second time with the thread's decimal context set to precision 5; call_sequences: every ordered triple over 15 boundary challenges and every ordered 4-sequence over 6 (hidden-state detection)",
        "samples": [{"challenge": c, "hash": h(c)} for c in (0, 1, 12345, 11092003, 11092004, 11092110, 11092479, P3 - 1)],
    }
    from .. import kwforms

    for w in kwforms.check("hash"):
        violations.append({"key": "keyword-form:" + w.split(":")[0][:60], "what": w, "case": {"kwforms": True}})
    coverage["keyword_call_forms_checked"] = True
    return {"coverage": coverage, "violations": violations}


def replay(case):
    if isinstance(case, dict) and case.get("kwforms"):
        from .. import kwforms

        bad = kwforms.check("hash")
        return bad[0] if bad else None
    loader.install_shims()
    h = _h()
    if case.get("decimal"):
        _hostile_decimal_context()
    if case.get("upto"):
        # context-dependent: replay every call sequence of the run, in order, up to the reported one
        for i, seq in enumerate(_all_sequences()):
            w = check_seq(seq)
            if w:
                return w + " (found while replaying the call sequences in order)"
            if i + 1 >= int(case["upto"]):
                return None
        return None
    if "seq" in case:
        return check_seq([int(x) for x in case["seq"]])
    c = int(case["challenge"])
    v = h(c)
    if v != verification_hash(c):
        return f"server_verification_hash({c}) = {v}; the client's truncating arithmetic gives {verification_hash(c)}" + (" (thread's decimal context: precision 5)" if case.get("decimal") else "")
    if c <= DOC_BOUND and not 0 <= v < P4:
        return f"server_verification_hash({c}) = {v} does not fit an EO int"
    return None
