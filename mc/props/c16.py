"""C16 - invalid objects are refused, never silently mis-serialized.

E3: every valid body x a few valid base objects x EVERY single declaration-violating change at every
field at every nesting depth (required field None, wrong fixed/padded/length-field-bounded length,
integer at/above its type's limit incl. enum ordinals and array elements, case data of the wrong
kind).  The reference semantics classifies the changed object; where it is invalid the generated
serializer must raise SerializationError (or ValueError) and never return.
"""

from .. import e3, loader, refsem, values
from ..specs import instructions
from ..xtypes import INT_LIMITS, INT_MAXVAL, is_bool_attr, resolve
from .c02 import _dec, _enc, real_serialize, ref_serialize

ID = "C16"
LEVEL = "exploration"
ASSUMPTIONS = [
    "a change counts as declaration-violating only if the reference semantics M10 refuses the changed object",
    "not judged: data for a switch value with neither case nor default, None elements inside arrays, negative integers, "
    "lengths below a positive offset, wrong Python types, objects the generated constructor itself rejects",
]


def _set(val, path, new):
    """Return a copy of the value tree with the item at path replaced (path: keys / tuple indices)."""
    if not path:
        return new
    head, rest = path[0], path[1:]
    if isinstance(val, dict):
        out = dict(val)
        out[head] = _set(val[head], rest, new)
        return out
    lst = list(val)
    lst[head] = _set(lst[head], rest, new)
    return tuple(lst)


def invalidations(unit, env, val, path=()):
    """Yield (label, path, new value) for every single invalidating change below `val` (a unit's value tree)."""
    nodes = values._scope_nodes(unit)
    scope = {n.get("name"): n for n in nodes if n.get("name")}
    for ins in nodes:
        name = ins.get("name")
        if ins.tag in ("field", "array") and name is not None and ins.text is None:
            t = resolve(ins.get("type"), env)
            opt = is_bool_attr(ins, "optional")
            cur = val.get(name)
            here = path + (name,)
            if not opt:
                yield (f"{name}=None", here, None)
            synth = False
            if cur is None:
                if not opt:
                    continue
                synth = True
                # an absent optional item: the changes below make it PRESENT and invalid (present-but-wrong must be refused
                # exactly like a required item)
                dom = [v for v in (values.item_domain(ins, env, scope, True) or ()) if v is not None]
                if not dom:
                    continue
                cur = dom[-1]
            ref = ins.get("length")
            if ins.tag == "field":
                if t.kind == "int":
                    yield (f"{name}=limit", here, INT_LIMITS[t.name])
                    yield (f"{name}=limit+1", here, INT_LIMITS[t.name] + 1)
                    for other, lim in INT_LIMITS.items():  # the limits of the wider types, and far beyond
                        if lim > INT_LIMITS[t.name] + 1:
                            yield (f"{name}=limit of {other}", here, lim)
                    yield (f"{name}=2**32", here, 2**32)
                    yield (f"{name}=253**4+253**3-1", here, 253**4 + 253**3 - 1)
                elif t.kind == "enum":
                    yield (f"{name}=ordinal at limit of {t.under}", here, INT_LIMITS[t.under])
                elif t.kind == "string" and ref is not None:
                    if ref.isdigit():
                        n = int(ref)
                        if not is_bool_attr(ins, "padded") and n > 0:
                            yield (f"len({name})={n - 1}", here, "x" * (n - 1))
                        yield (f"len({name})={n + 1}", here, "x" * (n + 1))
                    else:
                        ln = scope[ref]
                        if ln.get("type") in ("byte", "char"):
                            too = INT_MAXVAL[ln.get("type")] + int(ln.get("offset", "0")) + 1
                            yield (f"len({name})={too}", here, "x" * too)
                elif t.kind == "struct" and not synth:
                    yield from invalidations(env.structs[t.name], env, cur, here)
            else:
                if ref is not None and ref.isdigit():
                    n = int(ref)
                    if n > 0:
                        yield (f"len({name})={n - 1}", here, tuple(cur[: n - 1]))
                    extra = cur[0] if cur else (values.scalar_domain(t, None, env, small=True) or (None,))[0]
                    if extra is not None:
                        yield (f"len({name})={n + 1}", here, tuple(cur) + (extra,))
                elif ref is not None:
                    ln = scope[ref]
                    if ln.get("type") in ("byte", "char") and t.kind in ("int", "bool", "enum"):
                        too = INT_MAXVAL[ln.get("type")] + int(ln.get("offset", "0")) + 1
                        filler = cur[0] if cur else (0 if t.kind != "bool" else False)
                        yield (f"len({name})={too}", here, (filler,) * too)
                if cur and not synth:
                    if t.kind == "int":
                        yield (f"{name}[0]=limit", here + (0,), INT_LIMITS[t.name])
                        yield (f"{name}[-1]=limit", here + (len(cur) - 1,), INT_LIMITS[t.name])
                    elif t.kind == "enum":
                        yield (f"{name}[0]=ordinal at limit", here + (0,), INT_LIMITS[t.under])
                    elif t.kind == "struct":
                        yield from invalidations(env.structs[t.name], env, cur[-1], here + (len(cur) - 1,))
        elif ins.tag == "switch":
            fname = ins.get("field")
            key = fname + "_data"
            fnode = scope[fname]
            ft = resolve(fnode.get("type"), env)
            fv = val.get(fname)
            if fv is None:
                continue
            chosen = refsem.pick_case(ins, env, ft, fv)
            nonempty = [c for c in ins.kids if c.tag == "case" and instructions(c)]
            data = val.get(key)
            here = path + (key,)
            if chosen is None:
                continue
            if instructions(chosen):
                yield (f"{key}=None", here, None)
                for other in nonempty:
                    if other is not chosen:
                        sub = next(iter(values.enumerate_values(other, env, cap=1, small=True)), None)
                        if sub is not None:
                            sub = dict(sub, __case__=refsem.case_key(other))
                            yield (f"{key}=instance of case {refsem.case_key(other)}", here, sub)
                if isinstance(data, dict):
                    yield from invalidations(chosen, env, data, here)
            else:
                for other in nonempty:
                    sub = next(iter(values.enumerate_values(other, env, cap=1, small=True)), None)
                    if sub is not None:
                        sub = dict(sub, __case__=refsem.case_key(other))
                        yield (f"{key} present for an empty case", here, sub)
                        break


def judge_one(ld, ad, env, val, entry=False):
    """val is a (possibly) invalid value tree. -> ('skip'|'ok'|'bad', text)"""
    p = ld.program
    exp = ref_serialize(env, p.node, val, entry)
    if exp[0] not in ("sererror", "valueerror"):
        return ("skip", exp[0])
    try:
        obj = ad.build(ld.cls, p.node, val)
    except Exception as e:  # noqa: BLE001
        return ("ctor", type(e).__name__)
    got = real_serialize(ld.cls, obj, entry)
    if got[0] == "bytes":
        return ("bad", f"serialize returned normally with {got[1].hex()} although the object violates its declaration ({exp[0]})")
    if got[1] not in ("SerializationError", "ValueError"):
        return ("bad", f"serialize raised {got[1]} ({got[2]}) instead of SerializationError/ValueError")
    return ("ok", got[1])


class Judge:
    def wants(self, info):
        return info.cls == "valid"

    def judge(self, ctx, ld, info):
        p = ld.program
        if ld.cls is None:
            ctx.counts["not_loadable"] += 1
            return
        env = p.env()
        ad = e3.adaptor_for(p)
        nbase = 0
        seen = set()
        for base in values.enumerate_values(p.node, env, cap=4 if ctx.tier == "quick" else 12, small=True):
            if ref_serialize(env, p.node, base, False)[0] != "bytes":
                continue
            nbase += 1
            for label, path, new in invalidations(p.node, env, base):
                mut = _set(base, path, new)
                k = repr((path, repr(new)[:40]))
                if (nbase > 1 and k in seen):
                    continue
                seen.add(k)
                res, text = judge_one(ld, ad, env, mut)
                ctx.counts["changes_" + res] += 1
                if res in ("ok", "bad"):
                    ctx.counts["evaluations"] += 1
                if res == "bad":
                    ctx.violation(
                        f"invalid-accepted:{info.ident}:{label.split('=')[0][:30]}",
                        f"{info.host} [{info.ident}] base {base!r} with {label}: {text}",
                        {"tier": ctx.tier, "index": info.index, "value": _enc(mut)},
                    )
                    return
        ctx.counts["base_objects"] += nbase
        if nbase:
            ctx.sample({"program": info.ident, "base_objects": nbase, "changes": len(seen)})


def run(tier, seed):
    counts, violations, samples = e3.run(tier, seed, Judge())
    coverage = {
        "evaluations": counts["evaluations"],
        "distinct_nontrivial": counts["evaluations"],
        "programs": counts["programs"],
        "base_objects": counts["base_objects"],
        "changes_refused": counts["changes_ok"],
        "changes_not_invalidating_per_reference": counts["changes_skip"],
        "changes_refused_at_construction": counts["changes_ctor"],
        "violations_total": counts["violations_total"],
        "exhaustive": True,
        "rule": "per valid program, up to 4/12 valid base objects x every single change from the catalogue (None for required "
        "fields incl. struct-typed and arrays, fixed length -1/+1, padded +1, length-field bound +1 for byte/char length "
        "fields, integer = limit and limit+1, enum ordinal / array element at the limit, case data None / of another case / "
        "present for an empty case) at every field at every nesting depth; judged when M10 refuses the changed object; "
        "each (program, base, change) is a distinct case",
        "samples": samples[:3],
    }
    return {"coverage": coverage, "violations": violations}


def _replay_single(case):
    loader.install_shims()
    ld, info = e3.replay_program(case["tier"], int(case["index"]))
    if ld.cls is None:
        return None
    p = ld.program
    res, text = judge_one(ld, e3.adaptor_for(p), p.env(), _dec(case["value"]))
    return f"[{info.ident}] object {_dec(case['value'])!r}: {text}\n{p.node.xml()}" if res == "bad" else None


def replay(case):
    what = _replay_single(case)
    if what:
        return what
    if case.get("kind") in ("spelling",):
        return None
    what = e3.replay_whole(case["tier"], int(case["index"]), Judge())
    if what or not case.get("shard"):
        return what
    return e3.replay_shard(case["tier"], case["shard"], Judge())
