"""C05 - EoReader follows the chunked-reading model and never leaves its data.

E1 to a fixpoint: for every data string over a small alphabet, breadth-first search over the
product (real EoReader x reference reader M3) under the full public operation menu, slices
(including slices of slices) followed as transitions into the child reader, plus a pairwise
parent/child independence exploration at a smaller scope.  Thorough tier adds E5 (TLC model +
replay of every edge of the dumped state graph on the real class).
"""

import itertools

from .. import explorer, loader, par
from ..refmodels import RefReader

ID = "C05"
LEVEL = "model_checking"
ASSUMPTIONS = [
    "reference reader M3 transcribes the documented chunked-reading model (property text + EoReader docstrings)",
    "length arguments are non-negative except the documented ValueError of slice / get_fixed_*",
    "exhaustive within the stated alphabet and length bound only; nothing beyond the bound is sampled",
]

ALPHA_Q = (0x00, 0x01, 0x41, 0xFE, 0xFF)
ALPHA_T = (0x00, 0x01, 0x41, 0x80, 0x81, 0xFE, 0xFF)


def _reader_cls():
    return loader.lib("eolib.data.eo_reader").EoReader


def _obs_real(fn):
    try:
        r = fn()
    except Exception as e:  # noqa: BLE001 - the class of any exception is the observation
        return ("exc", type(e).__name__)
    if isinstance(r, (bytes, bytearray, memoryview)):
        return ("bytes", bytes(r))
    return ("val", r)


def _obs_model(fn):
    try:
        r = fn()
    except (ValueError, RuntimeError) as e:
        return ("exc", type(e).__name__)
    if isinstance(r, (bytes, bytearray)):
        return ("bytes", bytes(r))
    return ("val", r)


def call(reader, op):
    """Map an op tuple onto a reader-like object (real or reference: same public names)."""
    name = op[0]
    if name in ("get_byte", "get_char", "get_short", "get_three", "get_int", "get_string", "get_encoded_string"):
        return getattr(reader, name)()
    if name == "get_bytes":
        return reader.get_bytes(op[1])
    if name in ("get_fixed_string", "get_fixed_encoded_string"):
        return getattr(reader, name)(op[1], bool(op[2]))
    if name == "next_chunk":
        return reader.next_chunk()
    raise loader.HarnessError(f"unknown op {op!r}")


def full_menu(n, slice_args):
    ops = [("get_byte",), ("get_char",), ("get_short",), ("get_three",), ("get_int",)]
    ops += [("get_bytes", k) for k in (0, 1, 2, n + 3)]
    ops += [("get_string",), ("get_encoded_string",)]
    for m in ("get_fixed_string", "get_fixed_encoded_string"):
        ops += [(m, k, p) for k in (0, 2, n + 1) for p in (0, 1)]
        ops.append((m, -1, 0))
    ops += [("mode", 1), ("mode", 0), ("next_chunk",)]
    ops += [("slice", i, l) for i in slice_args for l in slice_args]
    ops += [("slice", -1, 0), ("slice", 0, -1), ("slice", -1, None)]
    return ops


class ReaderProduct(explorer.Product):
    def __init__(self, data, slice_full):
        self.data = bytes(data)
        self.slice_full = slice_full
        self.cls = _reader_cls()

    def fresh(self):
        return {"real": self.cls(self.data), "model": RefReader(self.data), "depth": 0}

    def menu(self, st):
        n = len(st["model"].data)
        if self.slice_full:
            args = [None] + list(range(n + 2))
        else:
            args = sorted({0, 1, n, n + 1}) + [None]
        return full_menu(n, args)

    @staticmethod
    def _state_cmp(real, model):
        try:
            pos, rem, mode = real.position, real.remaining, real.chunked_reading_mode
        except Exception as e:  # noqa: BLE001
            return f"property read raised {type(e).__name__}: {e}"
        if (pos, rem, bool(mode)) != (model.pos, model.remaining, model.chunked):
            return f"(position, remaining, mode) real={(pos, rem, mode)} model={(model.pos, model.remaining, model.chunked)}"
        if not (0 <= pos <= len(model.data)) or rem < 0:
            return f"position {pos} / remaining {rem} outside data of length {len(model.data)}"
        return None

    def apply(self, st, op):
        real, model = st["real"], st["model"]
        if op[0] == "mode":
            real.chunked_reading_mode = bool(op[1])
            model.chunked = bool(op[1])
            return self._state_cmp(real, model)
        if op[0] == "slice":
            before = explorer.snapshot(real)
            o_r = _obs_real(lambda: real.slice(op[1], op[2]))
            o_m = _obs_model(lambda: model.slice(op[1], op[2]))
            if o_r[0] == "exc" or o_m[0] == "exc":
                if o_r != o_m:
                    return f"slice{op[1:]} real={o_r} model={o_m[:2] if o_m[0] == 'exc' else 'reader'}"
                return self._state_cmp(real, model)
            if explorer.snapshot(real) != before:
                return f"slice{op[1:]} changed the parent reader"
            bad = self._state_cmp(real, model)
            if bad:
                return "parent after slice: " + bad
            child_r, child_m = o_r[1], o_m[1]
            if not isinstance(child_r, self.cls):
                return f"slice returned {type(child_r).__name__}"
            # the child must BEHAVE like a fresh reader over the expected clipped sub-range (how it represents the
            # shared buffer is its own business): its whole content is compared here on a second, throw-away slice,
            # and the exploration continues inside the child against the reference child
            try:
                probe = real.slice(op[1], op[2])
                content = bytes(probe.get_bytes(len(self.data) + 5))
                fresh = (probe.position, probe.remaining)
            except Exception as e:  # noqa: BLE001
                return f"reading a slice{op[1:]} raised {type(e).__name__}: {e}"
            if content != child_m.data or fresh != (len(child_m.data), 0):
                return f"slice{op[1:]} covers {content.hex()!r}, the clipped sub-range is {child_m.data.hex()!r}"
            if explorer.snapshot(real) != before:
                return f"reading from a slice{op[1:]} changed the parent reader"
            st["real"], st["model"] = child_r, child_m
            st["depth"] += 1
            return self._state_cmp(child_r, child_m)
        o_r = _obs_real(lambda: call(real, op))
        o_m = _obs_model(lambda: call(model, op))
        if o_r != o_m:
            return f"{op!r} returned real={o_r!r} model={o_m!r}"
        return self._state_cmp(real, model)

    def key(self, st):
        m = st["model"]
        return (explorer.snapshot(st["real"]), m.data, m.pos, m.chunked, m.chunk_start)


# ---------------------------------------------------------------- parent/child independence
IND_OPS = [("get_byte",), ("get_bytes", 2), ("get_string",), ("mode", 1), ("mode", 0), ("next_chunk",), ("get_short",)]


def _apply_plain(real, model, op):
    if op[0] == "mode":
        real.chunked_reading_mode = bool(op[1])
        model.chunked = bool(op[1])
        return None
    o_r = _obs_real(lambda: call(real, op))
    o_m = _obs_model(lambda: call(model, op))
    return None if o_r == o_m else f"{op!r} real={o_r!r} model={o_m!r}"


def independence_case(data, prefix, sl, seq):
    """prefix: parent ops before slicing; sl: (i, l); seq: list of ('p'|'c', op)."""
    cls = _reader_cls()
    real, model = cls(bytes(data)), RefReader(bytes(data))
    for op in prefix:
        _apply_plain(real, model, tuple(op))
    try:
        creal = real.slice(sl[0], sl[1])
    except Exception as e:  # noqa: BLE001
        return f"slice{tuple(sl)} raised {type(e).__name__}"
    cmodel = model.slice(sl[0], sl[1])
    for who, op in seq:
        op = tuple(op)
        bad = _apply_plain(real, model, op) if who == "p" else _apply_plain(creal, cmodel, op)
        if bad:
            return f"{who}:{bad}"
        for tag, r, m in (("parent", real, model), ("child", creal, cmodel)):
            bad = ReaderProduct._state_cmp(r, m)
            if bad:
                return f"after {who}:{op!r} the {tag} reader: {bad}"
    return None


def _independence(data):
    n = len(data)
    count, bad_cases = 0, []
    prefixes = [[], [("get_byte",)], [("mode", 1)], [("mode", 1), ("next_chunk",)]]
    for prefix in prefixes:
        for i in [None] + list(range(n + 1)):
            for l in [None] + list(range(n + 1)):
                for a in IND_OPS:
                    for b in IND_OPS:
                        for seq in ([("c", a), ("p", b), ("c", a)], [("p", a), ("c", b), ("p", a)]):
                            count += 1
                            bad = independence_case(data, prefix, (i, l), seq)
                            if bad and len(bad_cases) < 3:
                                bad_cases.append(({"data": bytes(data), "prefix": prefix, "slice": [i, l], "seq": seq}, bad))
    return count, bad_cases


# ---------------------------------------------------------------- blind histories
BLIND_OPS = [("get_byte",), ("get_char",), ("get_short",), ("get_bytes", 2), ("get_string",), ("get_fixed_string", 2, 1),
             ("mode", 1), ("mode", 0), ("next_chunk",), ("get_encoded_string",), ("get_int",)]


def blind_case(data, hist, container="bytes"):
    """Run a history WITHOUT reading any property in between (an observation must not be what keeps the reader right);
    compare every return value and the final state."""
    cls = _reader_cls()
    wrap = {"bytes": bytes, "bytearray": bytearray, "memoryview": lambda b: memoryview(bytes(b))}[container]
    real, model = cls(wrap(bytes(data))), RefReader(bytes(data))
    for i, op in enumerate(hist):
        op = tuple(op)
        if op[0] == "mode":
            real.chunked_reading_mode = bool(op[1])
            model.chunked = bool(op[1])
            continue
        o_r = _obs_real(lambda: call(real, op))
        o_m = _obs_model(lambda: call(model, op))
        if o_r != o_m:
            return f"unobserved history {list(hist)} step {i}: {op!r} returned real={o_r!r} model={o_m!r}"
    return ReaderProduct._state_cmp(real, model)


def _blind(data, depth):
    count, bad = 0, []
    for hist in itertools.product(BLIND_OPS, repeat=depth):
        for container in ("bytes", "bytearray", "memoryview"):
            count += 1
            what = blind_case(data, hist, container)
            if what and len(bad) < 2:
                bad.append(({"data": bytes(data), "history": [list(o) for o in hist], "container": container}, f"(data given as {container}) {what}"))
    return count, bad


# ---------------------------------------------------------------- byte sweep and length ladder
SWEEP_OPS = [("get_byte",), ("get_char",), ("get_short",), ("get_three",), ("get_int",), ("get_bytes", 2), ("get_string",), ("get_encoded_string",),
             ("get_fixed_string", 2, 0), ("get_fixed_string", 2, 1), ("get_fixed_encoded_string", 2, 0), ("get_fixed_encoded_string", 2, 1),
             ("get_fixed_string", 1, 0), ("get_fixed_encoded_string", 1, 1)]


def _byte_sweep(firsts):
    """Every data string of length 1 and 2 over ALL 256 byte values: each read operation on a fresh reader in both modes
    (the decoders see every byte value in every position of a one- and two-byte field)."""
    loader.install_shims()
    count, bad = 0, []
    for a in firsts:
        for data in [bytes((a,))] + [bytes((a, b)) for b in range(256)]:
            prod = ReaderProduct(data, slice_full=False)
            for mode in (0, 1):
                for op in SWEEP_OPS:
                    count += 1
                    hist = [("mode", mode), op]
                    st = prod.fresh()
                    what = prod.apply(st, hist[0]) or prod.apply(st, op)
                    if what and len(bad) < 3:
                        bad.append({"kind": "history", "data": data, "history": hist, "what": what})
    return count, bad


LADDER = (8, 16, 23, 24, 25, 32, 64, 128, 255, 256, 300, 1025, 65537)


def ladder_histories():
    """Behaviour must not depend on the data LENGTH: long data with the break byte at the start / middle / end / absent,
    read by every kind of operation (directly and through a slice)."""
    out = []
    for L in LADDER:
        h = L // 2
        for data in (b"A" * L, b"A" * (L - 1) + b"\xff", b"\xff" + b"A" * (L - 1), b"A" * h + b"\xff" + b"B" * (L - h - 1), b"\x80" * (L - 2) + b"\xff\x07"):
            out.append((data, [("mode", 1), ("get_string",), ("next_chunk",), ("get_string",), ("next_chunk",), ("get_char",)]))
            out.append((data, [("get_fixed_string", L - 1, 0), ("get_byte",), ("get_byte",)]))
            out.append((data, [("get_bytes", L - 2), ("get_short",), ("get_string",)]))
            out.append((data, [("mode", 1), ("get_fixed_encoded_string", L, 1), ("get_int",), ("next_chunk",), ("get_encoded_string",)]))
            out.append((data, [("get_encoded_string",), ("get_byte",)]))
            out.append((data, [("get_byte",), ("slice", None, None), ("mode", 1), ("get_string",), ("next_chunk",), ("get_fixed_string", 1, 1)]))
            out.append((data, [("mode", 1), ("get_byte",), ("next_chunk",), ("slice", None, h), ("get_string",), ("get_byte",)]))
    return out


def _ladder_one(i):
    loader.install_shims()
    data, hist = ladder_histories()[i]
    return explorer.replay(ReaderProduct(data, slice_full=False), hist)


# ---------------------------------------------------------------- shard worker
def _work(shard):
    datas, slice_full_len, ind_len = shard
    tot = {"states": 0, "transitions": 0, "max_depth": 0, "fixpoint": True, "strings": 0, "ind": 0}
    viol, samples = [], []
    for data in datas:
        prod = ReaderProduct(data, slice_full=len(data) <= slice_full_len)
        st = explorer.explore(prod, max_violations=2)
        tot["states"] += st.states
        tot["transitions"] += st.transitions
        tot["max_depth"] = max(tot["max_depth"], st.max_depth)
        tot["fixpoint"] &= st.fixpoint
        tot["strings"] += 1
        for hist, what in st.violations:
            viol.append({"kind": "history", "data": data, "history": hist, "what": what})
        if st.sample_histories and len(samples) < 2:
            samples.append({"data": data.hex(), "history": st.sample_histories[-1]})
        if len(data) <= ind_len:
            c, bads = _independence(data)
            tot["ind"] += c
            for case, what in bads:
                viol.append({"kind": "independence", "case": case, "what": what})
        if 2 <= len(data) <= ind_len + 1:
            c, bads = _blind(data, 3)
            tot["ind"] += c
            for case, what in bads:
                viol.append({"kind": "blind", "case": case, "what": what})
    return tot, viol[:6], samples


def _strings(alpha, maxlen):
    out = []
    for L in range(maxlen + 1):
        out.extend(bytes(t) for t in itertools.product(alpha, repeat=L))
    return out


def _key_for(v):
    if v["kind"] == "history":
        last = v["history"][-1]
        return f"reader-op:{last[0]}:{v['what'].split(' real=')[0][:60]}"
    if v["kind"] == "blind":
        return f"unobserved-history:{v['what'].split(' step ')[-1][:50]}"
    return f"slice-independence:{v['what'][:60]}"


def run(tier, seed):
    loader.install_shims()
    _reader_cls()
    if tier == "quick":
        alpha, maxlen, slice_full_len, ind_len = ALPHA_Q, 4, 3, 2
    else:
        alpha, maxlen, slice_full_len, ind_len = ALPHA_T, 5, 4, 3
    datas = _strings(alpha, maxlen)
    # interleave so that shards have similar cost
    shards = [(datas[i :: par.WORKERS * 4], slice_full_len, ind_len) for i in range(par.WORKERS * 4)]
    results = par.pmap(_work, [s for s in shards if s[0]])
    tot = {"states": 0, "transitions": 0, "max_depth": 0, "fixpoint": True, "strings": 0, "ind": 0}
    violations, samples = [], []
    for t, viol, smp in results:
        for k in ("states", "transitions", "strings", "ind"):
            tot[k] += t[k]
        tot["max_depth"] = max(tot["max_depth"], t["max_depth"])
        tot["fixpoint"] &= t["fixpoint"]
        samples.extend(smp)
        for v in viol:
            if v["kind"] == "history":
                case = {"kind": "history", "data": v["data"], "history": v["history"]}
                what = f"data={v['data'].hex()} history={v['history']}: {v['what']}"
            else:
                case = dict(v["case"], kind=v["kind"])
                what = f"{v['case']}: {v['what']}"
            violations.append({"key": _key_for(v), "what": what, "case": case})

    res_sweep = par.pmap(_byte_sweep, par.chunks(list(range(256)), par.WORKERS * 2))
    sweep_n = sum(r[0] for r in res_sweep)
    for r in res_sweep:
        for v in r[1]:
            violations.append({"key": "byte-sweep:" + _key_for(v), "what": f"data={v['data'].hex()} history={v['history']}: {v['what']}", "case": {"kind": "history", "data": v["data"], "history": v["history"]}})
    lad = ladder_histories()
    lad_n = len(lad)
    for (data, hist), what in zip(lad, par.pmap(_ladder_one, list(range(lad_n)))):
        if what:
            shown = data[:4].hex() + ".." + data[-4:].hex()
            violations.append({"key": "reader-long:" + what.split(" real=")[0][:60], "what": f"data of {len(data)} bytes ({shown}) history={hist}: {what[:300]}", "case": {"kind": "history", "data": data, "history": hist}})
    tot["ind"] += sweep_n + lad_n
    coverage = {
        "byte_sweep_executions": sweep_n,
        "long_data_histories": lad_n,
        "states": tot["states"],
        "transitions": tot["transitions"] + tot["ind"],
        "traces_validated_against_impl": tot["transitions"] + tot["ind"],
        "evaluations": tot["transitions"] + tot["ind"],
        "distinct_nontrivial": tot["states"],
        "data_strings": tot["strings"],
        "alphabet": [hex(a) for a in alpha],
        "max_data_len": maxlen,
        "max_depth_reached": tot["max_depth"],
        "fixpoint_reached": tot["fixpoint"],
        "independence_executions": tot["ind"],
        "exhaustive": bool(tot["fixpoint"]),
        "rule": (
            "every data string over the alphabet up to max_data_len; BFS over the product (real EoReader "
            "snapshot x reference reader) under the full op menu until no new product state appears; "
            "a state is distinct by (generic snapshot of the real reader, model state); every transition is "
            "one real call compared with the reference (return/exception class, position, remaining, mode); "
            "slices are transitions into the child reader; independence_executions are (parent op, child op) "
            "orders replayed against two reference readers, and every history of 3 operations over an 11-op menu run WITHOUT intermediate property reads, with the data given as bytes, bytearray and memoryview (data length 2..3 quick, 2..4 thorough); plus the byte sweep: every data string of length 1 and 2 over all 256 byte values x every read operation x both modes; plus a length ladder: data of 8..65537 bytes with the break byte at the start / middle / end / absent under seven histories (direct and through slices)"
        ),
        "samples": samples[:4],
    }
    if True:  # E5 runs in both tiers (about 6 s for the reader model, 2 s for the sequencer)
        from .. import tlc

        tl = tlc.run_reader_conformance()
        coverage["tlc"] = tl["coverage"]
        coverage["traces_validated_against_impl"] += tl["coverage"].get("edges_replayed", 0)
        violations.extend(tl["violations"])
    from .. import kwforms

    for w in kwforms.check("reader"):
        violations.append({"key": "keyword-form:" + w.split(":")[0][:60], "what": w, "case": {"kwforms": True}})
    coverage["keyword_call_forms_checked"] = True
    return {"coverage": coverage, "violations": violations}


def replay(case):
    if isinstance(case, dict) and case.get("kwforms"):
        from .. import kwforms

        bad = kwforms.check("reader")
        return bad[0] if bad else None
    loader.install_shims()
    if case["kind"] == "history":
        prod = ReaderProduct(bytes(case["data"]), slice_full=True)
        return explorer.replay(prod, [tuple(o) for o in case["history"]])
    if case["kind"] == "independence":
        return independence_case(
            bytes(case["data"]),
            [tuple(o) for o in case["prefix"]],
            tuple(case["slice"]),
            [(w, tuple(o)) for w, o in case["seq"]],
        )
    if case["kind"] == "blind":
        return blind_case(bytes(case["data"]), [tuple(o) for o in case["history"]], case.get("container", "bytes"))
    if case["kind"] == "tlc-edge":
        from .. import tlc

        return tlc.replay_reader_edge(case)
    raise loader.HarnessError(f"unknown case kind {case['kind']}")
