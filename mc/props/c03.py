"""C03 - generated deserializers obey the spec on truncated or hostile bytes.

E3: every valid body x byte strings: (a) every string over the alphabet B up to a length bound,
(b) every 1-deviation (prefix, substitution, insertion, appended junk) of valid serializations.
The generated deserializer must terminate and return exactly what the reference semantics M10 read
from the same bytes (value tree, byte_size at every level, final reader position), or raise
ValueError exactly where M10 does (negative fixed-string length).  Both entry modes and a
non-initial reader (one byte already consumed) are covered.
"""

import itertools

from .. import e3, loader, refsem, values
from .c02 import _dec, _enc, ref_serialize

ID = "C03"
LEVEL = "exploration"
ASSUMPTIONS = [
    "reference reading rules M10 on the reference reader M3 (DESIGN Appendix C)",
    "byte strings: exhaustive up to the length bound over B = {00,01,02,03,41,FE,FF} and all 1-deviations of valid "
    "serializations; the property's 'uniformly random bytes' clause is outside bounded exhaustive exploration",
]

B = (0x00, 0x01, 0x02, 0x03, 0x41, 0xFE, 0xFF)
B_RED = (0x00, 0x01, 0x03, 0xFE, 0xFF)


class Runaway(Exception):
    pass


_reader_cls = None


def reader_cls():
    """EoReader subclass with a step counter (turns a livelock into a reported violation)."""
    global _reader_cls
    base = loader.lib("eolib.data.eo_reader").EoReader
    if _reader_cls is None or _reader_cls.__mro__[1] is not base:

        class Counting(base):
            steps = 0

            def _tick(self):
                self.steps += 1
                if self.steps > 3000000:
                    raise Runaway("more than 3,000,000 reader calls")

            @property
            def remaining(self):
                self._tick()
                return base.remaining.fget(self)

            def next_chunk(self):
                self._tick()
                return base.next_chunk(self)

        _reader_cls = Counting
    return _reader_cls


def short_strings(tier):
    out = [b""]
    full_len = 2 if tier == "quick" else 3
    for L in range(1, full_len + 1):
        out += [bytes(t) for t in itertools.product(B, repeat=L)]
    red_len = 3 if tier == "quick" else 4
    for L in range(full_len + 1, red_len + 1):
        out += [bytes(t) for t in itertools.product(B_RED, repeat=L)]
    return out


def deviations(data, k_subst=B):
    out = []
    n = len(data)
    out += [data[:i] for i in range(n)]  # every proper prefix
    for i in range(n):
        for b in k_subst:
            if data[i] != b:
                out.append(data[:i] + bytes((b,)) + data[i + 1 :])
    for i in range(n + 1):
        for b in (0x00, 0xFE, 0xFF, 0x01):
            out.append(data[:i] + bytes((b,)) + data[i:])
    for suf in [bytes((b,)) for b in B] + [bytes(t) for t in itertools.product((0x00, 0xFE, 0xFF, 0x41), repeat=2)]:
        out.append(data + suf)
    return out


def deviations2(data):
    """Every pair of single-byte substitutions / a substitution followed by a truncation (deviation bound 2)."""
    out = []
    n = len(data)
    subs = (0x00, 0x01, 0xFE, 0xFF)
    for i in range(n):
        for a in subs:
            if data[i] == a:
                continue
            one = data[:i] + bytes((a,)) + data[i + 1 :]
            for j in range(i + 1, n):
                for b in subs:
                    if one[j] != b:
                        out.append(one[:j] + bytes((b,)) + one[j + 1 :])
            for cut in range(i + 1, n):
                out.append(one[:cut])
    return out


def compare(ld, ad, env, data, chunked, offset):
    """-> description or None"""
    p = ld.program
    try:
        exp = ("ok",) + refsem.deserialize(env, p.node, data, chunked=chunked, offset=offset)
    except ValueError:
        exp = ("ValueError",)
    except refsem.Unspecified:
        return "skip"
    R = reader_cls()
    canary = b"\xa5" * 4
    big = canary + data + canary
    r = R(memoryview(big)[4 : 4 + len(data)])
    for _ in range(offset):
        r.get_byte()
    r.chunked_reading_mode = chunked
    try:
        obj = ld.cls.deserialize(r)
    except ValueError as e:
        if exp[0] == "ValueError":
            return None
        return f"raised ValueError ({e}) but the reading rules give {exp[1]!r}"
    except Runaway as e:
        return f"does not terminate: {e}"
    except Exception as e:  # noqa: BLE001
        return f"raised {type(e).__name__}: {e}"
    if exp[0] == "ValueError":
        return "returned an object although the data decodes to a negative fixed-string length (ValueError is the documented outcome)"
    try:
        seen = ad.observe(obj, ld.cls, p.node)
    except Exception as e:  # noqa: BLE001
        return f"inspecting the result raised {type(e).__name__}: {e}"
    if seen != exp[1]:
        return f"returned {seen!r}, the reading rules give {exp[1]!r}"
    if r.position != exp[2]:
        return f"left the reader at position {r.position}, the reading rules at {exp[2]}"
    if bool(r.chunked_reading_mode) != chunked:
        return f"left chunked_reading_mode={r.chunked_reading_mode}, entered with {chunked}"
    return None


class Judge:
    def __init__(self):
        self._short = {}

    def wants(self, info):
        return info.cls == "valid"

    def judge(self, ctx, ld, info):
        p = ld.program
        if ld.cls is None:
            ctx.counts["not_loadable"] += 1
            return
        env = p.env()
        ad = e3.adaptor_for(p)
        tier = ctx.tier
        if tier not in self._short:
            self._short[tier] = short_strings(tier)
        cases = []
        for s in self._short[tier]:
            cases.append((s, False, 0))
            if len(s) <= 2:
                cases.append((s, True, 0))
                if s:
                    cases.append((s, False, 1))
                    cases.append((s, True, 1))
            elif 0xFF in s:
                cases.append((s, True, 0))
        nser = 0
        seen_data = set()
        for val in values.enumerate_values(p.node, env, cap=3 if tier == "quick" else 8, small=True):
            exp = ref_serialize(env, p.node, val, False)
            if exp[0] != "bytes" or exp[1] in seen_data or len(exp[1]) > 12:
                continue
            seen_data.add(exp[1])
            nser += 1
            cases.append((exp[1], False, 0))
            cases.append((exp[1], True, 0))
            # single-item bodies and the corpus: every byte value at every position (each decoder sees all 256 values in
            # every position of a valid message); elsewhere the boundary alphabet
            wide = (info.ident.count(";") == 0 and info.host.startswith("struct")) or info.ident.startswith("corpus:")
            if wide:
                ctx.counts["full_byte_substitution_bases"] += 1
            for d in deviations(exp[1], range(256) if wide else B if tier != "quick" else (0x00, 0x01, 0xFE, 0xFF)):
                cases.append((d, False, 0))
                if 0xFF in d:
                    cases.append((d, True, 0))
            if tier != "quick" and info.ident.count(";") <= 1 and "[" not in info.ident and len(exp[1]) <= 7:
                for d in deviations2(exp[1]):
                    cases.append((d, False, 0))
                    if 0xFF in d:
                        cases.append((d, True, 0))
                ctx.counts["two_deviation_bases"] += 1
        ctx.counts["valid_serializations"] += nser
        for data, chunked, offset in cases:
            what = compare(ld, ad, env, data, chunked, offset)
            if what == "skip":
                ctx.counts["skipped_unspecified"] += 1
                continue
            ctx.counts["evaluations"] += 1
            if what:
                ctx.violation(
                    f"deserialize:{info.ident}:{what.split(':')[0].split('(')[0][:40]}",
                    f"{info.host} [{info.ident}] bytes {data.hex()} (entry chunked={chunked}, offset {offset}): {what}",
                    {"tier": tier, "index": info.index, "data": data, "chunked": chunked, "offset": offset},
                )
                return
        ctx.sample({"program": info.ident, "byte_strings": len(cases)})


def run(tier, seed):
    counts, violations, samples = e3.run(tier, seed, Judge())
    coverage = {
        "evaluations": counts["evaluations"],
        "distinct_nontrivial": counts["evaluations"] - counts["programs"],
        "programs": counts["programs"],
        "valid_serializations_deviated": counts["valid_serializations"],
        "skipped_unspecified": counts["skipped_unspecified"],
        "two_deviation_bases": counts["two_deviation_bases"],
        "full_byte_substitution_bases": counts["full_byte_substitution_bases"],
        "not_loadable": counts["not_loadable"],
        "violations_total": counts["violations_total"],
        "short_string_alphabet": [hex(b) for b in B],
        "exhaustive": True,
        "rule": "per valid program: every byte string over B up to length 2/3 (and over the 5-symbol reduction up to 3/4) "
        "under entry modes/offsets, plus every prefix, single substitution (all 256 byte values for single-item struct bodies and the corpus, the boundary alphabet elsewhere), single insertion and 1-2 byte suffix of up to "
        "3/8 valid serializations (thorough: also every pair of substitutions and substitution+truncation - deviation bound 2 - for bodies of at most two items); each (program, bytes, mode, offset) is one distinct case (non-trivial = all but the "
        "empty string per program); compared with M10: value tree incl. nested byte_size, final position, mode, "
        "ValueError exactly where M10 raises it, termination within 3,000,000 reader calls",
        "samples": samples[:3],
    }
    return {"coverage": coverage, "violations": violations}


def _replay_single(case):
    loader.install_shims()
    ld, info = e3.replay_program(case["tier"], int(case["index"]))
    if ld.cls is None:
        return None
    p = ld.program
    what = compare(ld, e3.adaptor_for(p), p.env(), bytes(case["data"]), bool(case["chunked"]), int(case["offset"]))
    if what and what != "skip":
        return f"[{info.ident}] bytes {bytes(case['data']).hex()}: {what}\n{p.node.xml()}"
    return None


def replay(case):
    what = _replay_single(case)
    if what:
        return what
    if case.get("kind") in ("spelling",):
        return None
    what = e3.replay_whole(case["tier"], int(case["index"]), Judge())
    if what or not case.get("shard"):
        return what
    return e3.replay_shard(case["tier"], case["shard"], Judge())
