"""C10 - packet-encryption primitives are lossless and exactly invertible (E4)."""

import itertools

from .. import loader, par
from .. import refmodels as M

ID = "C10"
LEVEL = "exploration"
ASSUMPTIONS = [
    "reference M5 transcribes the docstrings: weave front-ascending/back-descending, xor 0x80 unless low 7 bits are 0, "
    "reverse every maximal run of multiples",
    "interleave lengths above the bound and swap_multiples data beyond the enumerated patterns are not explored",
]


def _fns():
    return loader.lib("eolib.encrypt.encryption_utils")


VIEW = [False]  # when set, the primitives get a writable memoryview over the bytearray (in-place use on a packet slice)


def _apply(fn, data, *args):
    buf = bytearray(data)
    if VIEW[0]:
        backing = bytearray(b"\xa5" + bytes(data) + b"\xa5")
        view = memoryview(backing)[1 : 1 + len(data)]
        try:
            r = fn(view, *args)
        except Exception as e:  # noqa: BLE001
            return ("exc", type(e).__name__, bytes(view))
        if backing[0] != 0xA5 or backing[-1] != 0xA5:
            return ("returned", "wrote outside the view", bytes(view))
        if r is not None:
            return ("returned", repr(r), bytes(view))
        return ("ok", None, bytes(view))
    try:
        r = fn(buf, *args)
    except Exception as e:  # noqa: BLE001
        return ("exc", type(e).__name__, bytes(buf))
    if r is not None:
        return ("returned", repr(r), bytes(buf))
    return ("ok", None, bytes(buf))


def check_perm(data):
    """interleave / deinterleave on one input."""
    m = _fns()
    data = bytes(data)
    i = _apply(m.interleave, data)
    d = _apply(m.deinterleave, data)
    if i[0] != "ok" or d[0] != "ok":
        return f"interleave/deinterleave on length {len(data)}: {i[:2]} {d[:2]}"
    if i[2] != M.interleave(data):
        return f"interleave({data.hex()}) = {i[2].hex()}, expected {M.interleave(data).hex()}"
    if d[2] != M.deinterleave(data):
        return f"deinterleave({data.hex()}) = {d[2].hex()}, expected {M.deinterleave(data).hex()}"
    if _apply(m.deinterleave, i[2])[2] != data:
        return f"deinterleave(interleave(x)) != x for x={data.hex()}"
    if _apply(m.interleave, d[2])[2] != data:
        return f"interleave(deinterleave(x)) != x for x={data.hex()}"
    return None


def check_flip(data):
    m = _fns()
    data = bytes(data)
    f = _apply(m.flip_msb, data)
    if f[0] != "ok":
        return f"flip_msb: {f[:2]}"
    if f[2] != M.flip_msb(data):
        return f"flip_msb({data.hex()}) = {f[2].hex()}, expected {M.flip_msb(data).hex()}"
    if _apply(m.flip_msb, f[2])[2] != data:
        return f"flip_msb is not an involution on {data.hex()}"
    for a, b in zip(data, f[2]):
        if a in (0, 128) and a != b:
            return f"flip_msb changed {a}"
    return None


def check_swap(data, mult):
    m = _fns()
    data = bytes(data)
    s = _apply(m.swap_multiples, data, mult)
    if mult < 0:
        if s[0] != "exc" or s[1] != "ValueError":
            return f"swap_multiples(multiple={mult}) -> {s[:2]}, expected ValueError"
        if s[2] != data:
            return f"swap_multiples(multiple={mult}) modified the data before rejecting"
        return None
    if s[0] != "ok":
        return f"swap_multiples({data.hex()}, {mult}) -> {s[:2]}"
    out = s[2]
    if out != M.swap_multiples(data, mult):
        return f"swap_multiples({data.hex()}, {mult}) = {out.hex()}, expected {M.swap_multiples(data, mult).hex()}"
    if mult == 0 and out != data:
        return "multiple 0 is not the identity"
    if len(out) != len(data) or sorted(out) != sorted(data):
        return f"swap_multiples({data.hex()}, {mult}) changed length or multiset"
    if mult > 0:
        for i, b in enumerate(data):
            if b % mult != 0 and out[i] != b:
                return f"swap_multiples({data.hex()}, {mult}) moved non-multiple at {i}"
    if _apply(m.swap_multiples, out, mult)[2] != data:
        return f"swap_multiples twice is not the identity on {data.hex()} (multiple {mult})"
    return None


PIPE = ("interleave", "deinterleave", "flip_msb", "swap3", "swap7")


def check_pipeline(data, names):
    m = _fns()
    fwd = {
        "interleave": (m.interleave, m.deinterleave, ()),
        "deinterleave": (m.deinterleave, m.interleave, ()),
        "flip_msb": (m.flip_msb, m.flip_msb, ()),
        "swap3": (m.swap_multiples, m.swap_multiples, (3,)),
        "swap7": (m.swap_multiples, m.swap_multiples, (7,)),
    }
    buf = bytearray(data)
    try:
        for n in names:
            fwd[n][0](buf, *fwd[n][2])
        for n in reversed(names):
            fwd[n][1](buf, *fwd[n][2])
    except Exception as e:  # noqa: BLE001
        return f"pipeline {list(names)} on {bytes(data).hex()} raised {type(e).__name__}: {e}"
    if bytes(buf) != bytes(data):
        return f"pipeline {list(names)} then inverses in reverse order maps {bytes(data).hex()} to {bytes(buf).hex()}"
    return None


SEQ_ATOMS = [("perm", b""), ("perm", b"\x01\x02\x03"), ("perm", bytes(range(8))), ("flip", b"\x00\x80\x01\xff"), ("flip", b"\x7f"),
             ("swap", b"\x06\x09\x01\x03\x0c", 3), ("swap", b"\x00\x00", 1), ("swap", b"\x05\x0a\x0f", 5), ("swap", b"\x01\x02", 0),
             ("swap", b"\x03\x06", -1), ("perm", bytes(range(9, 0, -1)))]


# calls the documented signatures do not admit (an immutable bytes object cannot be changed in place; None; a str): whatever
# they do is not judged, but they must leave nothing behind that changes a later, valid call
BAD_ATOMS = [("bad", fn, kind) for fn in ("interleave", "deinterleave", "flip_msb", "swap_multiples") for kind in ("bytes", "none", "str")]


def _bad_call(fn_name, kind):
    m = _fns()
    arg = {"bytes": b"\x06\x03\x09\x01\x0c\x0c", "none": None, "str": "\x06\x03\x09"}[kind]
    try:
        if fn_name == "swap_multiples":
            m.swap_multiples(arg, 3)
        else:
            getattr(m, fn_name)(arg)
    except Exception:  # noqa: BLE001
        pass


def check_atom(atom):
    if atom[0] == "bad":
        _bad_call(atom[1], atom[2])
        return None
    if atom[0] == "perm":
        return check_perm(bytes(atom[1]))
    if atom[0] == "flip":
        return check_flip(bytes(atom[1]))
    return check_swap(bytes(atom[1]), int(atom[2]))


def check_seq(seq):
    for i, atom in enumerate(seq):
        w = check_atom(atom)
        if w:
            return f"call sequence of {len(seq)} at #{i} ({atom[0]}): {w}"
    return None


def _seq_shard(firsts):
    loader.install_shims()
    count, bad = 0, []
    for a in firsts:
        seqs = [[a] + list(rest) for rest in itertools.product(SEQ_ATOMS, repeat=2)]
        # error paths: (valid, inadmissible, valid) and (inadmissible, valid)
        seqs += [[a, b, c] for b in BAD_ATOMS for c in SEQ_ATOMS] + [[b, a] for b in BAD_ATOMS]
        for seq in seqs:
            count += 1
            w = check_seq(seq)
            if w and len(bad) < 3:
                bad.append(({"fn": "seq", "data": b"", "seq": [list(x) for x in seq]}, w))
    return count, bad


def _view_shard(L):
    """The same oracles with a writable memoryview as the argument (lengths 0..39, three fillings, multiples 0..9)."""
    loader.install_shims()
    VIEW[0] = True
    try:
        count, bad = 0, []
        for data in (_marks(L, 251), bytes((i * 3) % 256 for i in range(L)), bytes([0, 128, 1, 129] * (L // 4 + 1))[:L]):
            for kind, args in [("perm", ()), ("flip", ())] + [("swap", (m,)) for m in (0, 1, 3, 7, -1)]:
                count += 1
                w = check_perm(data) if kind == "perm" else check_flip(data) if kind == "flip" else check_swap(data, args[0])
                if w and len(bad) < 3:
                    bad.append(({"fn": kind, "data": data, "mult": args[0] if args else 0, "view": True}, "(argument is a writable memoryview) " + w))
        return count, bad
    finally:
        VIEW[0] = False


def _marks(n, mod):
    return bytes((i * 7 + 1) % mod for i in range(n))


def _perm_shard(lengths):
    loader.install_shims()
    count, bad = 0, []
    for L in lengths:
        for data in (_marks(L, 251), bytes(i % 256 for i in range(L)), bytes(L)):
            count += 1
            w = check_perm(data)
            if w and len(bad) < 3:
                bad.append(({"fn": "perm", "data": data}, w))
    return count, bad


def _short_shard(shard):
    prefixes, alpha, maxlen, kind = shard
    loader.install_shims()
    count, bad = 0, []
    for p in prefixes:
        for L in range(0, maxlen - len(p) + 1):
            for t in itertools.product(alpha, repeat=L):
                data = bytes(p) + bytes(t)
                if kind == "perm":
                    count += 1
                    w = check_perm(data)
                    if w and len(bad) < 3:
                        bad.append(({"fn": "perm", "data": data}, w))
                elif kind == "flip":
                    count += 1
                    w = check_flip(data)
                    if w and len(bad) < 3:
                        bad.append(({"fn": "flip", "data": data}, w))
                elif kind == "swap":
                    for mult in range(0, 10):
                        count += 1
                        w = check_swap(data, mult)
                        if w and len(bad) < 3:
                            bad.append(({"fn": "swap", "data": data, "mult": mult}, w))
                elif kind == "pipe":
                    for names in itertools.product(PIPE, repeat=3):
                        count += 1
                        w = check_pipeline(data, names)
                        if w and len(bad) < 3:
                            bad.append(({"fn": "pipe", "data": data, "names": list(names)}, w))
    return count, bad


def _table_shard(mults):
    loader.install_shims()
    count, bad = 0, []
    for mult in mults:
        for v in range(256):
            for data in (bytes((v, mult)), bytes((mult, v, 0)), bytes((1 if mult > 1 else 0, v, mult, 0))):
                count += 1
                w = check_swap(data, mult)
                if w and len(bad) < 3:
                    bad.append(({"fn": "swap", "data": data, "mult": mult}, w))
    return count, bad


BIG_MULTS = (256, 257, 511, 512, 1000, 65535, 65536, 2**31, 2**40 + 255)


def _pattern_shard(shard):
    """Every divisibility pattern of length <= maxlen realised with distinct marks for each multiple."""
    mults, maxlen = shard
    loader.install_shims()
    count, bad = 0, []
    for mult in mults:
        if mult <= 0 or mult > 255:
            # beyond 255 the only multiple a byte can be is 0: the non-multiples start at the top of the byte range and
            # at the residues a reduced multiple would single out
            multiples = [0]
            nons = list(dict.fromkeys([255, mult % 256 or 1, 254, 128, (mult >> 8) % 256 or 2, 1, 2, 3, 5, 7, 11, 13, 17, 19, 23]))
        else:
            multiples = list(range(0, 256, mult))
            nons = [x for x in range(256) if x % mult != 0]
        for L in range(0, maxlen + 1):
            for pat in itertools.product((0, 1), repeat=L):
                data = bytearray()
                mi = ni = 0
                for bit in pat:
                    if bit:
                        data.append(multiples[mi % len(multiples)])
                        mi += 1
                    else:
                        if not nons:
                            break
                        data.append(nons[ni % len(nons)])
                        ni += 1
                else:
                    count += 1
                    w = check_swap(bytes(data), mult)
                    if w and len(bad) < 3:
                        bad.append(({"fn": "swap", "data": bytes(data), "mult": mult}, w))
    return count, bad


def run(tier, seed):
    loader.install_shims()
    quick = tier == "quick"
    W = par.WORKERS
    results = []
    max_perm_len = 600 if quick else 2000
    results += par.pmap(_perm_shard, [list(range(i, max_perm_len + 1, W)) for i in range(W)])
    pa = (0, 1, 0x80, 0xFF)
    results += par.pmap(_short_shard, [([p], pa, 6 if quick else 8, "perm") for p in itertools.product(pa, repeat=1)])
    # flip_msb: all single bytes, all pairs, triples over an 8-symbol alphabet
    results += par.pmap(_short_shard, [([bytes((a,)) for a in c], range(256), 2, "flip") for c in par.chunks(range(256), W)])
    fa = (0, 1, 0x7F, 0x80, 0x81, 0xFE, 0xFF, 0x40)
    results += par.pmap(_short_shard, [([()], fa, 3 if quick else 5, "flip")])
    results.append(_short_shard(([()], (), 0, "flip")))
    sa = (0, 1, 2, 3, 4, 6, 9)
    results += par.pmap(_short_shard, [([p], sa, 6 if quick else 7, "swap") for p in itertools.product(sa, repeat=1)])
    results.append(_short_shard(([()], (), 0, "swap")))
    mults = list(range(1, 256)) + list(BIG_MULTS)
    results += par.pmap(_pattern_shard, [(c, 10 if quick else 12) for c in par.chunks(mults, W * 2)])
    # multiples beyond the byte range: every byte value 1..255 is a non-multiple and must stay where it is next to zeros
    bigc, bigbad = 0, []
    for mult in BIG_MULTS:
        for v in range(1, 256):
            for data in (bytes((0, v)), bytes((v, 0)), bytes((0, v, 0, 0)), bytes((v, v, 0)), bytes((0, 0, v))):
                bigc += 1
                w = check_swap(data, mult)
                if w and len(bigbad) < 3:
                    bigbad.append(({"fn": "swap", "data": data, "mult": mult}, w))
    results.append((bigc, bigbad))
    # the whole divisibility table: every (multiple 1..255, byte value) pair next to a certain multiple
    results += par.pmap(_table_shard, par.chunks(list(range(1, 256)), W))
    # negative multiples
    negc, negbad = 0, []
    for mult in (-1, -2, -255, -1000):
        for data in (b"", b"\x00", b"\x03\x06\x09", bytes(range(10))):
            negc += 1
            w = check_swap(data, mult)
            if w:
                negbad.append(({"fn": "swap", "data": data, "mult": mult}, w))
    results.append((negc, negbad))
    pa2 = (0, 3, 7, 0x80, 0x15)
    results += par.pmap(_short_shard, [([p], pa2, 4 if quick else 5, "pipe") for p in itertools.product(pa2, repeat=1)])

    results += par.pmap(_seq_shard, [[a] for a in SEQ_ATOMS])
    results += par.pmap(_view_shard, [L for L in range(0, 40)])

    evals = sum(r[0] for r in results)
    violations = []
    for _, bads in results:
        for case, what in bads:
            key = f"{case['fn']}:{what.split('(')[0][:40]}"
            violations.append({"key": key, "what": what, "case": case})
    m = _fns()
    smp = bytearray(range(7))
    m.interleave(smp)
    coverage = {
        "evaluations": evals,
        "distinct_nontrivial": evals - 3,
        "interleave_max_len": max_perm_len,
        "swap_multiples_multiples": "0..9 on all strings over {0,1,2,3,4,6,9}; 1..255 and nine multiples beyond the byte range (256..2**40+255) on all divisibility patterns; beyond 255 also every byte value 1..255 next to zeros; every (multiple 1..255, byte value 0..255) pair next to known multiples; negatives rejected",
        "exhaustive": True,
        "rule": (
            "interleave/deinterleave: every length 0..interleave_max_len with 3 fillings (index marks mod 251 / mod 256 / "
            "zeros) + every string over {0,1,0x80,0xFF} up to len 6/8; flip_msb: all 256 bytes, all 65,536 pairs, short "
            "strings over an 8-symbol alphabet; swap_multiples: all strings up to len 6/7 over {0,1,2,3,4,6,9} x multiples "
            "0..9, every divisibility pattern up to len 10/12 for each multiple; all 125 pipelines of 3 primitives undone "
            "by inverses in reverse order; every ordered triple of 11 mixed calls (hidden-state detection).  Each case compares with M5 and checks the stated algebra.  Non-trivial = "
            "all but the three empty inputs."
        ),
        "samples": [
            {"interleave": list(range(7)), "result": list(smp)},
            {"swap_multiples": [10, 21, 27], "multiple": 3, "result": list(M.swap_multiples(bytes([10, 21, 27]), 3))},
        ],
    }
    from .. import kwforms

    for w in kwforms.check("encrypt"):
        violations.append({"key": "keyword-form:" + w.split(":")[0][:60], "what": w, "case": {"kwforms": True}})
    coverage["keyword_call_forms_checked"] = True
    return {"coverage": coverage, "violations": violations}


def replay(case):
    if isinstance(case, dict) and case.get("kwforms"):
        from .. import kwforms

        bad = kwforms.check("encrypt")
        return bad[0] if bad else None
    loader.install_shims()
    fn = case["fn"]
    VIEW[0] = bool(case.get("view"))
    if fn == "seq":
        return check_seq([tuple(a) for a in case["seq"]])
    data = bytes(case["data"])
    if fn == "perm":
        return check_perm(data)
    if fn == "flip":
        return check_flip(data)
    if fn == "swap":
        return check_swap(data, int(case["mult"]))
    if fn == "pipe":
        return check_pipeline(data, list(case["names"]))
    raise loader.HarnessError(fn)
