"""C13 - packet sequencer yields start + (n mod 10) under any update history.

E1 to a fixpoint on the real PacketSequencer (two peer instances in lockstep) against M7, plus an
exhaustive enumeration of all histories to a fixed depth *without* state deduplication (covers
several wrap-arounds even for an implementation whose hidden state a snapshot would miss).
Thorough tier adds E5 (TLC model Sequencer.tla, every edge replayed on the real class).
"""

import itertools

from .. import explorer, loader, par
from ..refmodels import RefSequencer

ID = "C13"
LEVEL = "model_checking"
ASSUMPTIONS = [
    "reference M7: result = start in force + (number of earlier requests mod 10)",
    "start values are drawn from a finite set built through every SequenceStart constructor path",
]

# the library's own factories produce negative starts (InitSequenceStart.from_init_values(1, 2).value == -4) and starts
# near the top of the two-byte range; "arbitrary start values" includes both
VALUES = (0, 1, 9, 240, 1756, -4, 64005)
CTORS = ("zero", "account", "init", "ping", "simple")


def make_start(ctor, value):
    m = loader.lib("eolib.packet.sequence_start")
    if ctor == "zero":
        return m.SequenceStart.zero(), 0
    if ctor == "account":
        return m.AccountReplySequenceStart.from_value(value), value
    if ctor == "init":
        # value = seq1*7 + seq2 - 13
        seq1 = (value + 13) // 7
        seq2 = value + 13 - seq1 * 7
        return m.InitSequenceStart.from_init_values(seq1, seq2), value
    if ctor == "ping":
        return m.PingSequenceStart.from_ping_values(value + 5, 5), value
    if ctor == "simple":
        return m.SimpleSequenceStart(value), value
    raise loader.HarnessError(ctor)


class _Broken:
    """A SequenceStart whose value is not ready: reading it raises.  A request that raises returns no sequence number,
    so it must not consume one."""

    @property
    def value(self):
        raise RuntimeError("sequence start not ready")


def start_menu(values):
    out = [("zero", 0)]
    for c in CTORS[1:]:
        out += [(c, v) for v in values]
    return out


class SeqProduct(explorer.Product):
    def __init__(self, init, values):
        self.init = tuple(init)
        self.values = values
        self.cls = loader.lib("eolib.packet.packet_sequencer").PacketSequencer

    def fresh(self):
        s1, v = make_start(*self.init)
        s2, _ = make_start(*self.init)
        return {"a": self.cls(s1), "b": self.cls(s2), "model": RefSequencer(v)}

    def menu(self, st):
        return [("next",)] + [("set",) + s for s in start_menu(self.values)] + [("set_shared", "init", self.values[1]), ("set_shared", "ping", self.values[3]), ("fork",), ("set_broken",)]

    def apply(self, st, op):
        if op[0] == "fork":
            # peer b is replaced by a shallow copy of peer a (a fork used to peek / to branch a history): the two must
            # be independent from then on
            import copy

            try:
                st["b"] = copy.copy(st["a"])
            except Exception as e:  # noqa: BLE001
                return f"copy.copy(sequencer) raised {type(e).__name__}"
            st["forked"] = True  # part of the state key: sharing between the two objects is invisible to a snapshot
            return None
        if op[0] == "set_broken":
            # an implementation may read the value when the start is installed: then the update itself fails and
            # nothing has changed; otherwise the failure shows at the next request
            raised = []
            for side in ("a", "b"):
                try:
                    st[side].set_sequence_start(_Broken())
                    raised.append(False)
                except RuntimeError:
                    raised.append(True)
                except Exception as e:  # noqa: BLE001
                    return f"set_sequence_start with an unready start raised {type(e).__name__}"
            if raised[0] != raised[1]:
                return "the two peers reacted differently to an unready start"
            st["broken"] = not raised[0]
            st["broken_rejected"] = raised[0]
            return None
        if op[0] == "next" and st.get("broken"):
            outcomes = []
            for side in ("a", "b"):
                try:
                    outcomes.append(("ret", st[side].next_sequence()))
                except RuntimeError:
                    outcomes.append(("raised",))
                except Exception as e:  # noqa: BLE001
                    return f"next_sequence with an unready start raised {type(e).__name__}"
            if outcomes != [("raised",), ("raised",)]:
                return f"next_sequence returned {outcomes} although the start's value is not ready"
            return None  # nothing was returned: n does not advance
        if op[0] == "next":
            try:
                ra, rb = st["a"].next_sequence(), st["b"].next_sequence()
            except Exception as e:  # noqa: BLE001
                return f"next_sequence raised {type(e).__name__}: {e}"
            rm = st["model"].next_sequence()
            if ra != rm or rb != rm:
                return f"request #{st['model'].n - 1}: peers returned {ra}, {rb}; start + n mod 10 = {rm}"
            return None
        if op[0] == "set_shared":
            # one start object handed to BOTH peers (and kept by the harness): sharing it must not couple them
            _, ctor, value = op
            s, v = make_start(ctor, value)
            st.setdefault("kept", []).append(s)
            for side in ("a", "b"):
                st[side].set_sequence_start(s)
            if s.value != v:
                return f"the shared start object changed its value to {s.value}"
            st["model"].set_start(v)
            st["broken"] = False
            return None
        _, ctor, value = op
        for side in ("a", "b"):
            s, v = make_start(ctor, value)
            r = st[side].set_sequence_start(s)
            if r is not None:
                return f"set_sequence_start returned {r!r}"
        st["model"].set_start(v)
        st["broken"] = False
        return None

    def key(self, st):
        return (explorer.snapshot(st["a"]), explorer.snapshot(st["b"]), st["model"].start, st["model"].n % 10, bool(st.get("broken")), bool(st.get("forked")))


def _explore_from(job):
    init, values = job
    loader.install_shims()
    return explorer.explore(SeqProduct(init, values), max_violations=2, max_states=20000)


def _deep_histories(shard):
    """All histories of a fixed depth over {next, set v0, set v1}; no deduplication."""
    first_ops, depth, vals = shard
    loader.install_shims()
    ops = [("next",), ("set", "account", vals[0]), ("set", "init", vals[1])]
    prod = SeqProduct(("zero", 0), vals)
    count, bad = 0, []
    for first in first_ops:
        for rest in itertools.product(range(3), repeat=depth - len(first)):
            hist = [ops[i] for i in tuple(first) + rest]
            st = prod.fresh()
            count += 1
            for i, op in enumerate(hist):
                what = prod.apply(st, op)
                if what:
                    if len(bad) < 3:
                        bad.append((hist[: i + 1], what))
                    break
    return count, bad


def _long_runs(values):
    """next-only runs of 45 requests (four wrap-arounds) with a set at every possible single point."""
    prod = SeqProduct(("zero", 0), values)
    count, bad = 0, []
    for at in range(46):
        for s in start_menu(values):
            hist = [("next",)] * at + [("set",) + s] + [("next",)] * (45 - at)
            count += 1
            what = explorer.replay(prod, hist)
            if what and len(bad) < 3:
                bad.append((hist, what))
    return count, bad


def _macro_runs(values, depth):
    """Histories over macro-ops {next x1, next x9, next x10, set a, set b}: several wrap-arounds with several updates
    in between, without deduplication."""
    prod = SeqProduct(("zero", 0), values)
    macros = [[("next",)], [("next",)] * 9, [("next",)] * 10, [("set", "account", values[5])], [("set", "ping", values[3])]]
    count, bad = 0, []
    for combo in itertools.product(range(len(macros)), repeat=depth):
        hist = [op for i in combo for op in macros[i]]
        count += 1
        what = explorer.replay(prod, hist)
        if what and len(bad) < 3:
            bad.append((hist, what))
    return count, bad


def run(tier, seed):
    loader.install_shims()
    values = VALUES if tier == "quick" else VALUES + (7, 252, 1757, 64008, -9, -13)
    tot_states = tot_trans = 0
    violations, samples = [], []
    fix = True
    capped = False
    maxd = 0
    inits = start_menu(values)
    for init, st in zip(inits, par.pmap(_explore_from, [(init, values) for init in inits])):
        capped |= st.capped
        tot_states += st.states
        tot_trans += st.transitions
        fix &= st.fixpoint
        maxd = max(maxd, st.max_depth)
        if st.sample_histories and len(samples) < 2:
            samples.append({"initial_start": list(init), "history": st.sample_histories[-1]})
        for hist, what in st.violations:
            violations.append(
                {
                    "key": "sequencer:" + what.split(":")[0][:40].replace(str(len(hist)), "N"),
                    "what": f"initial start {init}, history {hist}: {what}",
                    "case": {"kind": "history", "init": list(init), "values": list(values), "history": hist},
                }
            )
    depth = 12 if tier == "quick" else 14
    prefix_len = 3
    firsts = list(itertools.product(range(3), repeat=prefix_len))
    res = par.pmap(_deep_histories, [(c, depth, (values[5], values[3])) for c in par.chunks(firsts, par.WORKERS)])
    deep = sum(r[0] for r in res)
    for _, bads in res:
        for hist, what in bads:
            violations.append(
                {
                    "key": "sequencer-deep:" + what.split(":")[0][:12],
                    "what": f"history {hist}: {what}",
                    "case": {"kind": "history", "init": ["zero", 0], "values": list(values), "history": hist},
                }
            )
    longc, longbad = _long_runs(values)
    for hist, what in longbad:
        violations.append(
            {
                "key": "sequencer-long:" + what.split(":")[1][:20] if ":" in what else what[:20],
                "what": f"history of {len(hist)} ops: {what}",
                "case": {"kind": "history", "init": ["zero", 0], "values": list(values), "history": hist},
            }
        )
    macroc, macrobad = _macro_runs(values, 5 if tier == "quick" else 6)
    for hist, what in macrobad:
        violations.append(
            {
                "key": "sequencer-macro:" + (what.split(":")[1][:20] if ":" in what else what[:20]),
                "what": f"history of {len(hist)} ops: {what}",
                "case": {"kind": "history", "init": ["zero", 0], "values": list(values), "history": hist},
            }
        )
    longc += macroc
    coverage = {
        "states": tot_states,
        "transitions": tot_trans + deep * depth + longc * 46,
        "traces_validated_against_impl": deep + longc + tot_trans,
        "evaluations": tot_trans + deep + longc,
        "distinct_nontrivial": tot_states,
        "fixpoint_reached": fix,
        "state_cap_hit": capped,
        "max_depth_reached": maxd,
        "undeduplicated_histories": deep,
        "undeduplicated_depth": depth,
        "long_runs": longc,
        "macro_histories": macroc,
        "start_values": list(values),
        "constructor_paths": list(CTORS),
        "exhaustive": bool(fix),
        "rule": (
            "BFS to fixpoint over (two real PacketSequencer peers, reference) from every initial start; menu = "
            "next_sequence + set_sequence_start(start built by every constructor path x value set) + a start object shared by both peers + fork (peer b := copy.copy(peer a)) + a start whose value raises (a failed request consumes no number); distinct by "
            "generic snapshot of both real objects + model (start, n mod 10); plus every history of "
            "undeduplicated_depth over {next, set a, set b} replayed without deduplication, plus 46-request runs "
            "with one update at every position, plus every sequence of 5/6 macro-ops {next, next x9, next x10, set a, set b}"
        ),
        "samples": samples,
    }
    if True:  # E5 runs in both tiers (about 6 s for the reader model, 2 s for the sequencer)
        from .. import tlc

        tl = tlc.run_sequencer_conformance()
        coverage["tlc"] = tl["coverage"]
        coverage["traces_validated_against_impl"] += tl["coverage"].get("edges_replayed", 0)
        violations.extend(tl["violations"])
    from .. import kwforms

    for w in kwforms.check("sequence"):
        violations.append({"key": "keyword-form:" + w.split(":")[0][:60], "what": w, "case": {"kwforms": True}})
    coverage["keyword_call_forms_checked"] = True
    return {"coverage": coverage, "violations": violations}


def replay(case):
    if isinstance(case, dict) and case.get("kwforms"):
        from .. import kwforms

        bad = kwforms.check("sequence")
        return bad[0] if bad else None
    loader.install_shims()
    if case["kind"] == "history":
        prod = SeqProduct(tuple(case["init"]), tuple(case["values"]))
        return explorer.replay(prod, [tuple(o) for o in case["history"]])
    if case["kind"] == "tlc-edge":
        from .. import tlc

        return tlc.replay_sequencer_edge(case)
    raise loader.HarnessError(case["kind"])
