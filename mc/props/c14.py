"""C14 - protocol enums accept every integer and keep its value.

E1 over construction histories: the state is the set of enum classes (and their metaclass); every
history of <= 3 constructions over (enum class x integer) is run against freshly created classes on
a freshly loaded metaclass module, and after every step the public snapshot of every class (list, __members__, len, `in`)
must be unchanged and every declared ordinal must still resolve to its member.
Generated enums (underlying byte/char/short/three/int, produced by the real generator) get the
same treatment through the spec pipeline when it is available.
"""

import importlib
import sys
import itertools
import types
from enum import IntEnum

from .. import loader, par

ID = "C14"
LEVEL = "model_checking"
ASSUMPTIONS = [
    "reference M8: declared ordinal -> that member (same object every time); any other integer -> instance of the enum "
    "equal/hashing equal to the integer, named Unrecognized(n), int() == n",
    "Python 3.12 enum machinery (the behaviour of ProtocolEnumMeta is version-specific)",
]

DECLS = {
    "Dense": {"FOO": 0, "BAR": 1, "BAZ": 2},
    "Sparse": {"None_": 0, "Low": 3, "High": 252, "Wide": 64008},
    "Builtin": {"int": 1, "list": 2, "name_": 255},
    "Unordered": {"Invalid": 250, "Low": 1, "Next": 2, "Top": 251},
}
EXTRA = (-1, 0, 1, 2, 3, 4, 200, 252, 253, 255, 256, 64008, 2**31, 2**64)


def make_classes():
    """Fresh metaclass module + fresh enum classes."""
    mod = loader.lib("eolib.protocol.protocol_enum_meta")
    mod = importlib.reload(mod)
    meta = mod.ProtocolEnumMeta
    classes = {}
    for name, members in DECLS.items():
        classes[name] = meta(name, (IntEnum,), _ns(meta, name, members))
    return meta, classes


def _ns(meta, name, members):
    ns = meta.__prepare__(name, (IntEnum,))
    for k, v in members.items():
        ns[k] = v
    return ns


def _snap_mapping(v):
    if isinstance(v, (dict, types.MappingProxyType)):
        return tuple(sorted((repr(k), _snap_value(x)) for k, x in v.items()))
    if isinstance(v, (list, tuple, set, frozenset)):
        return tuple(sorted(_snap_value(x) for x in v))
    return None


def _snap_value(x):
    if isinstance(x, int):
        return (type(x).__name__, int(x), getattr(x, "_name_", None))
    return repr(x)


PROBES = tuple(sorted(set(EXTRA) | {v for d in DECLS.values() for v in d.values()}))


def class_snapshot(cls):
    """Public observations only (a private cache is not a change of the declared members)."""
    out = [
        ("list", tuple((m.name, int(m)) for m in cls)),
        ("members", tuple((k, int(v)) for k, v in cls.__members__.items())),
        ("len", len(cls)),
        ("reversed", tuple(int(m) for m in reversed(cls))),
    ]
    contains = []
    for n in PROBES:
        try:
            contains.append(n in cls)
        except TypeError:
            contains.append("TypeError")
    out.append(("contains", tuple(contains)))
    names = []
    for k in cls.__members__:
        try:
            names.append(cls[k] is getattr(cls, k))
        except Exception:  # noqa: BLE001
            names.append(False)
    out.append(("by_name", tuple(names)))
    return tuple(out)


def judge(cls, decl, n, others=()):
    """The oracle for one construction, applied to every way of spelling the integer: positional, keyword, and - being
    integers too - members / unrecognized instances of OTHER protocol enums and bool."""
    forms = [("", lambda: cls(n)), ("value=", lambda: cls(value=n))]
    for o in others:
        if o is not cls:
            forms.append((f"{o.__name__}(...) as ", lambda o=o: cls(o(n))))
    if n in (0, 1):
        forms.append(("bool ", lambda: cls(bool(n))))
    for label, make in forms:
        w = _judge_one(cls, decl, n, make, label)
        if w:
            return w
    return None


def _judge_one(cls, decl, n, make, label):
    try:
        x = make()
    except Exception as e:  # noqa: BLE001
        return f"{cls.__name__}({label}{n}) raised {type(e).__name__}: {e}"
    by_ord = {v: k for k, v in decl.items()}
    if n in by_ord:
        member = getattr(cls, by_ord[n], None)
        if x is not member:
            return f"{cls.__name__}({n}) is not the declared member {by_ord[n]}: got {x!r}"
        return None
    try:
        if not isinstance(x, cls):
            return f"{cls.__name__}({n}) returned {x!r} which is not an instance of {cls.__name__}"
        if not (x == n and n == x) or hash(x) != hash(n) or int(x) != n or x.value != n:
            return f"{cls.__name__}({n}) does not keep the value: ==:{x == n} hash:{hash(x) == hash(n)} int:{int(x)} value:{x.value!r}"
        if x.name != f"Unrecognized({n})":
            return f"{cls.__name__}({n}).name = {x.name!r}"
        if type(x.value) is not int and not isinstance(x.value, int):
            return f"{cls.__name__}({n}).value has type {type(x.value).__name__}"
    except Exception as e:  # noqa: BLE001
        return f"inspecting {cls.__name__}({n}) raised {type(e).__name__}: {e}"
    return None


def run_history(hist, classes=None, decls=None):
    """hist: list of (class name, n)."""
    if classes is None:
        _, classes = make_classes()
        decls = DECLS
    before = {k: class_snapshot(c) for k, c in classes.items()}
    for i, (cname, n) in enumerate(hist):
        w = judge(classes[cname], decls[cname], n, tuple(classes.values()))
        if w:
            return f"step {i}: {w}"
        for k, c in classes.items():
            if class_snapshot(c) != before[k]:
                diff = [a[0] for a, b in zip(class_snapshot(c), before[k]) if a != b]
                return f"step {i}: {cname}({n}) changed enum {k}: {diff}"
            for mname, ordinal in decls[k].items():
                try:
                    ok = c(ordinal) is getattr(c, mname)
                except Exception as e:  # noqa: BLE001
                    return f"step {i}: after {cname}({n}), {k}({ordinal}) raised {type(e).__name__}"
                if not ok:
                    return f"step {i}: after {cname}({n}), {k}({ordinal}) is no longer the member {mname}"
    return None


# ---------------------------------------------------------------- generated enums (real generator)
# a struct whose fields use the enums plainly and with underlying-type overrides: values must survive read-then-write
SURVIVAL_FIELDS = [("a", "E1"), ("b", "E1:short"), ("c", "E2"), ("d", "E2:char"), ("e", "E3"), ("f", "WideThree"), ("g", "E1:int"), ("h", "E1")]
SURVIVAL_WIRE = ["char", "short", "short", "char", "byte", "three", "int", "char"]

GEN_ENUMS = {
    "net": [("E1", None), ("E2", None), ("E3", None), ("PacketAction", None)],
    "pub": [("WideThree", ("three", [("None", 0), ("Mid", 64009), ("Top", 16194276)]))],
    "map": [("WideInt", ("int", [("A", 1), ("B", 4097152080)])), ("Tiny", ("byte", [("Only", 255)]))],
}
# declaration ORDER is part of "all enum declarations": every order of the ordinals {0, 1, 2, 7} (consecutive runs after a
# larger ordinal included), plus two protocol-like out-of-order declarations
ORDER_ENUMS = [(f"Perm{i}", ("char", [(f"M{v}", v) for v in perm])) for i, perm in enumerate(itertools.permutations((0, 1, 2, 7)))]
ORDER_ENUMS += [
    ("Unordered", ("short", [("Invalid", 250), ("Low", 1), ("Next", 2), ("Other", 3), ("Top", 251)])),
    ("WideUnordered", ("three", [("Small", 5), ("Big", 64007), ("Mid", 300), ("MidNext", 301)])),
    # a signed ordinal is an integer the declaration syntax admits (it cannot travel on the wire, but the class must keep it)
    ("Signed", ("short", [("Back", -2), ("Zero", 0), ("Fwd", 1), ("Far", 40)])),
]
GEN_ENUMS["pub"] = GEN_ENUMS["pub"] + ORDER_ENUMS
ORDER_NAMES = {n for n, _ in ORDER_ENUMS}
_gen_dir = None


def _enum_tree():
    from .. import genpipe, specs

    files = {}
    decls = {}
    env = specs.Env(specs.prelude(2))
    for d, items in GEN_ENUMS.items():
        for name, spec in items:
            if spec is not None:
                files.setdefault(d, []).append(specs.enum(name, spec[0], spec[1]))
                members = dict(spec[1])
            else:
                members = dict(env.enum_values(name))
            pyname = {("None_" if k == "None" else k): v for k, v in members.items()}
            decls[name] = ("eolib.protocol._generated." + genpipe.SUBPKG[d] + "." + genpipe.snake(name), pyname)
    files.setdefault("pub", []).append(specs.struct("Survivor", [specs.field(n, t) for n, t in SURVIVAL_FIELDS]))
    return files, decls


def reused_generator_check():
    """The enum tree generated by a generator object that generated an EARLIER VERSION of it before (every declared
    ordinal one higher): the classes must carry the ordinals of the tree they were generated from.  -> description or None"""
    import shutil

    from .. import genpipe

    files, decls = _enum_tree()
    earlier = {}
    for d, nodes in files.items():
        earlier[d] = []
        for n in nodes:
            c = n.copy()
            if c.tag == "enum":
                for v in c.kids:
                    if v.tag == "value":
                        v.text = str(int(v.text) + 1)
            earlier[d].append(c)
    work = loader.scratch_dir("c14r")
    try:
        genpipe.write_tree(earlier, work + "/xml", n_families=2)

        def rewrite():
            shutil.rmtree(work + "/xml")
            genpipe.write_tree(files, work + "/xml", n_families=2)

        how, err = genpipe.run_generator_twice(work + "/xml", work + "/out", rewrite)
        if how == "first-failed":
            return None  # the shifted tree is not a valid tree (an ordinal left its range): nothing to learn
        if how == "raised":
            return f"a generator object that generated an earlier version of the enum tree fails on the current one: {type(err).__name__}: {err}"
        importlib.reload(loader.lib("eolib.protocol.protocol_enum_meta"))
        loader.point_generated_at(work + "/out/second")
        for name, (mod, members) in decls.items():
            if name in ("PacketAction", "E1", "E2", "E3"):
                continue  # prelude enums are not shifted
            try:
                cls = getattr(loader.gen(mod), name)
                for mname, ordinal in members.items():
                    got = cls(ordinal)
                    if got.name != mname or int(got) != ordinal or getattr(cls, mname) is not got:
                        return f"generated by a re-used generator object: {name}({ordinal}) is {got.name}, the tree declares {mname} = {ordinal}"
            except Exception as e:  # noqa: BLE001 - what the generated / hand-written code raises is an observation
                return f"generated by a re-used generator object: using {name} raised {type(e).__name__}: {e}"
        return None
    finally:
        shutil.rmtree(work, ignore_errors=True)


def _generated_setup():
    """Generate the enum tree once per process; returns (out_dir, {class name: (module, {member: ordinal})})."""
    global _gen_dir
    from .. import genpipe, specs

    if _gen_dir is None:
        files, decls = _enum_tree()
        work = loader.scratch_dir("c14")
        genpipe.write_tree(files, work + "/xml", n_families=2)
        err = genpipe.run_generator(work + "/xml", work + "/out")
        if err is not None:
            raise loader.HarnessError(f"generator rejected the enum tree: {err}")
        _gen_dir = (work + "/out", decls)
    return _gen_dir


def make_generated_classes():
    out, decls = _generated_setup()
    importlib.reload(loader.lib("eolib.protocol.protocol_enum_meta"))
    loader.point_generated_at(out)
    classes = {name: getattr(loader.gen(mod), name) for name, (mod, _) in decls.items()}
    return classes, {name: members for name, (_, members) in decls.items()}


def run_generated_history(hist):
    classes, decls = make_generated_classes()
    return run_history(hist, classes, decls)


def survival_case(ordinals):
    """Bytes carrying the given ordinals -> generated deserialize -> generated serialize: same bytes, same ordinals."""
    from ..refmodels import RefWriter

    classes, _ = make_generated_classes()
    cls = getattr(loader.gen("eolib.protocol._generated.pub.survivor"), "Survivor")
    R = loader.lib("eolib.data.eo_reader").EoReader
    W = loader.lib("eolib.data.eo_writer").EoWriter
    ref = RefWriter()
    for wire, n in zip(SURVIVAL_WIRE, ordinals):
        ref.add_number(wire, n)
    data = bytes(ref.buf)
    try:
        obj = cls.deserialize(R(data))
        for (name, typ), n in zip(SURVIVAL_FIELDS, ordinals):
            v = getattr(obj, name)
            ecls = classes.get(typ.split(":")[0])
            if int(v) != n or (ecls is not None and not isinstance(v, ecls)):
                return f"field {name}: {typ} read ordinal {n} from the wire as {v!r}"
        w = W()
        cls.serialize(w, obj)
        out = bytes(w.to_bytearray())
    except Exception as e:  # noqa: BLE001
        return f"ordinals {list(ordinals)} (bytes {data.hex()}): read-then-write raised {type(e).__name__}: {e}"
    if out != data:
        return f"ordinals {list(ordinals)}: read {data.hex()}, wrote back {out.hex()}"
    return None


def survival_cases():
    from ..refmodels import LIMITS

    doms = []
    for wire in SURVIVAL_WIRE:
        top = LIMITS[wire] - 1
        doms.append(sorted({0, 1, 2, 5, top, min(top, 300), min(top, 253)}))
    cases = []
    for i, dom in enumerate(doms):  # one field at a time over its whole domain, the others at a base value
        for n in dom:
            base = [1] * len(doms)
            base[i] = n
            cases.append(tuple(base))
    cases.append(tuple(d[-1] for d in doms))
    cases.append(tuple(d[0] for d in doms))
    return list(dict.fromkeys(cases))


def generated_menu():
    _, decls = _generated_setup()
    ops = []
    for cname, (_, members) in decls.items():
        extra = {-1, 0, 5, 253, 2**31} | ({v + 1 for v in members.values()} | {max(members.values()) + 2} if cname in ORDER_NAMES else set())
        for n in sorted(set(members.values()) | extra):
            ops.append((cname, n))
    return ops


def _gen_shard(firsts):
    loader.install_shims()
    ops = generated_menu()
    count, bad = 0, []
    for first in firsts:
        # the declaration-order family is explored per class (its classes do not interact more than the others do)
        if first[0] in ORDER_NAMES:
            seconds = [o for o in ops if o[0] == first[0]]
        else:
            seconds = [o for o in ops if o[0] not in ORDER_NAMES]
        for rest in [()] + [(o,) for o in seconds]:
            hist = [tuple(first)] + list(rest)
            count += 1
            w = run_generated_history(hist)
            if w and len(bad) < 3:
                bad.append((hist, w))
    return count, bad


def _reused_job(_):
    loader.install_shims()
    return reused_generator_check()


def menu():
    ops = []
    for cname, decl in DECLS.items():
        extra = set(EXTRA) if cname != "Unordered" else {-1, 3, 252}  # the order family keeps the menu (and depth 4) affordable
        for n in sorted(set(decl.values()) | extra):
            ops.append((cname, n))
    return ops


def _shard(shard):
    firsts, depth = shard
    loader.install_shims()
    ops = menu()
    count, bad = 0, []
    for first in firsts:
        for d in range(0, depth):
            for rest in itertools.product(ops, repeat=d):
                hist = [tuple(first)] + list(rest)
                count += 1
                w = run_history(hist)
                if w and len(bad) < 3:
                    bad.append((hist, w))
    return count, bad


def run(tier, seed):
    loader.install_shims()
    ops = menu()
    depth = 3 if tier == "quick" else 4
    if tier != "quick":
        ops_t = ops  # depth 4 over the full menu is 10^7 histories; shard on the first op
    res = par.pmap(_shard, [(c, depth) for c in par.chunks(ops, par.WORKERS * 3)])
    count = sum(r[0] for r in res)
    violations = []
    for r in res:
        for hist, w in r[1]:
            key = "enum:" + w.split(": ", 1)[1].split("(")[0][:30] + ":" + ("declared" if "member" in w else "unrecognized")
            violations.append({"key": key, "what": f"history {hist}: {w}", "case": {"history": hist}})
    gops = generated_menu()
    res2 = par.pmap(_gen_shard, par.chunks(gops, par.WORKERS * 2))
    gcount = sum(r[0] for r in res2)
    for r in res2:
        for hist, w in r[1]:
            key = "generated-enum:" + w.split(": ", 1)[1].split("(")[0][:30]
            violations.append({"key": key, "what": f"generated enums, history {hist}: {w}", "case": {"history": hist, "generated": True}})
    count += gcount
    count += 1
    w = par.pmap(_reused_job, [0])[0]
    if w:
        violations.append({"key": "generated-enum:reused-generator", "what": w, "case": {"reused_generator": True}})
    for ords in survival_cases():
        count += 1
        w = survival_case(ords)
        if w:
            violations.append({"key": "enum-survival:" + w.split(":")[0][:40], "what": w, "case": {"survival": list(ords)}})
            break
    _, classes = make_classes()
    states = len({class_snapshot(c) for c in classes.values()}) + len(GEN_ENUMS["net"]) + len(GEN_ENUMS["pub"]) + len(GEN_ENUMS["map"])
    coverage = {
        "states": states,
        "transitions": count * depth,
        "traces_validated_against_impl": count,
        "evaluations": count,
        "distinct_nontrivial": count,
        "enum_classes": list(DECLS),
        "generated_enum_classes": [n for v in GEN_ENUMS.values() for n, _ in v],
        "generated_enum_histories": gcount,
        "menu_ops": len(ops),
        "max_history": depth,
        "exhaustive": True,
        "rule": "every history of 1..max_history constructions over (3 hand-written enum classes x declared ordinals + 14 other "
        "integers), each run on freshly created classes over a freshly reloaded metaclass module, WITHOUT state "
        "deduplication (on a correct tree the product has one state per class - counted under `states` - so histories are "
        "enumerated outright); after each step: M8 oracle, unchanged public snapshot of every class "
        "(list, reversed, len, __members__, `n in E` for every probe integer, E[name]), declared ordinals still resolve to their members; the same for 7 enums produced by the real generator (underlying byte/char/short/three/int, a member named None), histories of depth <= 2 on freshly imported modules; plus read-then-write survival of declared/unrecognized/top-of-range ordinals through a generated struct whose fields use the enums plainly and with underlying-type overrides",
        "samples": [{"history": [["Dense", 200], ["Sparse", 200], ["Dense", 1]]}],
    }
    return {"coverage": coverage, "violations": violations}


def replay(case):
    loader.install_shims()
    if case.get("reused_generator"):
        return reused_generator_check()
    if case.get("survival"):
        return survival_case([int(x) for x in case["survival"]])
    if case.get("generated"):
        return run_generated_history([(c, int(n)) for c, n in case["history"]])
    return run_history([(c, int(n)) for c, n in case["history"]])
