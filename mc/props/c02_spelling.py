"""C02, last clause: spelling a boolean attribute's default explicitly does not change the format.

Every valid program is regenerated with every boolean attribute written out ("false"/"true", and a
mixed-case variant "False"/"TRUE"); the generator must accept it and the generated serializer must
produce the bytes M10 prescribes (M10 reads booleans as text.lower() == "true", so its answer is the
same as for the original program by construction).
"""

import collections

from .. import e3, genpipe, loader, values, wellformed
from ..xtypes import resolve

STYLES = ("explicit",)  # xs:boolean is lower-case; other capitalisations are not part of the grammar


def spell(node, style, env):
    """Returns a deep copy with boolean attributes spelled out; None if nothing changed."""
    n = node.copy()
    changed = [False]
    f, t = ("false", "true") if style == "explicit" else ("False", "TRUE")

    def walk(x):
        if x.tag in ("field", "array", "length"):
            if x.get("name") is not None and x.text is None:
                if x.get("optional") is None:
                    x.attrs["optional"] = f
                    changed[0] = True
                elif style == "mixed":
                    x.attrs["optional"] = t if x.get("optional").lower() == "true" else f
                    changed[0] = True
        if x.tag == "field" and x.get("length") is not None:
            try:
                is_str = resolve(x.get("type"), env).kind == "string"
            except Exception:  # noqa: BLE001
                is_str = False
            if is_str:
                if x.get("padded") is None:
                    x.attrs["padded"] = f
                    changed[0] = True
                elif style == "mixed":
                    x.attrs["padded"] = t if x.get("padded").lower() == "true" else f
        if x.tag == "array":
            if x.get("delimited") is None:
                x.attrs["delimited"] = f
                changed[0] = True
            else:
                if style == "mixed":
                    x.attrs["delimited"] = t if x.get("delimited").lower() == "true" else f
                if x.get("delimited").lower() == "true" and x.get("trailing-delimiter") is None:
                    x.attrs["trailing-delimiter"] = t
                    changed[0] = True
                elif style == "mixed" and x.get("trailing-delimiter") is not None:
                    x.attrs["trailing-delimiter"] = t if x.get("trailing-delimiter").lower() == "true" else f
        if x.tag == "case":
            if x.get("default") is None:
                x.attrs["default"] = f
                changed[0] = True
            elif style == "mixed":
                x.attrs["default"] = t
        for k in x.kids:
            walk(k)

    walk(n)
    return n if changed[0] else None


_TIER = None
_UNI = None


def _shard(indices):
    from .c02 import _enc, real_serialize, ref_serialize

    loader.install_shims()
    counts = collections.Counter()
    violations, samples = [], []
    for a in range(0, len(indices), e3.BATCH):
        chunk = indices[a : a + e3.BATCH]
        progs = []
        for slot, (i, style) in enumerate(chunk):
            p, info = e3.make_program(i, _UNI[i], slot)
            if info.cls != "valid":
                continue
            v = spell(p.node, style, p.env())
            if v is None:
                continue
            p.node = v
            if wellformed.classify_unit(p.node, p.env())[0] != "valid":
                raise loader.HarnessError(f"spelling variant of a valid program is not M9-valid: {p.node.xml()}")
            progs.append((p, info, style))
        if not progs:
            continue
        loaded = genpipe.load_batch([p for p, _, _ in progs])
        for ld, (p, info, style) in zip(loaded, progs):
            counts["spelling_programs"] += 1
            case = {"kind": "spelling", "tier": _TIER, "index": info.index, "style": style}
            if ld.gen_error is not None:
                counts["violations_total"] += 1
                if len(violations) < 10:
                    violations.append({"key": f"spelling-rejected:{style}:{info.ident}", "what": f"[{info.ident}] with boolean attributes spelled {style}ly is rejected by the generator: {ld.gen_error}\n{p.node.xml()}", "case": case})
                continue
            if ld.cls is None:
                counts["not_loadable"] += 1
                continue
            ad = e3.adaptor_for(p)
            env = p.env()
            bad = None
            for val in values.enumerate_values(p.node, env, cap=32, small=True):
                try:
                    obj = ad.build(ld.cls, p.node, val)
                except Exception:  # noqa: BLE001
                    continue
                for entry in (False, True):
                    exp = ref_serialize(env, p.node, val, entry)
                    if exp[0] != "bytes":
                        continue
                    got = real_serialize(ld.cls, obj, entry)
                    counts["spelling_comparisons"] += 1
                    if got[0] != "bytes" or got[1] != exp[1]:
                        shown = got[1].hex() if got[0] == "bytes" else f"{got[1]}: {got[2]}"
                        bad = f"value {val!r}: serialized {shown}, format prescribes {exp[1].hex()}"
                        break
                if bad:
                    break
            if bad:
                counts["violations_total"] += 1
                if len(violations) < 10:
                    violations.append({"key": f"spelling-bytes:{style}:{info.ident}", "what": f"[{info.ident}] with boolean attributes spelled {style}ly: {bad}\n{p.node.xml()}", "case": case})
            elif len(samples) < 1:
                samples.append({"spelled": p.node.xml()})
    return counts, violations, samples


def run(tier, seed):
    from .. import par

    global _TIER, _UNI
    loader.install_shims()
    _TIER, _UNI = tier, e3.universe(tier)
    jobs = [(i, s) for i in range(len(_UNI)) for s in STYLES]
    n = par.WORKERS * 3
    res = par.pmap(_shard, [jobs[k::n] for k in range(n)])
    counts = collections.Counter()
    violations, samples = [], []
    for c, v, s in res:
        counts.update(c)
        violations += v
        samples += s
    # one entry per key
    seen, out = set(), []
    for v in violations:
        if v["key"] not in seen:
            seen.add(v["key"])
            out.append(v)
    return counts, out, samples


def replay(case):
    global _TIER, _UNI
    _TIER, _UNI = case["tier"], e3.universe(case["tier"])
    _, violations, _ = _shard([(int(case["index"]), case["style"])])
    return violations[0]["what"] if violations else None
