import collections


def run(tier, seed):
    return collections.Counter(), [], []


def replay(case):
    return None
