"""C15 - (de)serialization leaves reader and writer modes as it found them.

E3 x E2 (fault enumeration): every valid body x the first and the richest values x both entry modes
x EVERY fault point - a writer/reader whose k-th public call raises an injected Fault, for every k
up to the number of calls of the fault-free run - for the top-level class AND for every nested
struct / case-data class reachable from the instance (each is a generated serialize/deserialize in
its own right).  Also: every single-field invalidation of C16's catalogue (validation error at each
instruction) and hostile bytes that raise ValueError.  After the call - returned or raised - the
mode equals the entry mode and the injected Fault propagates unchanged.
"""

from .. import e3, loader, refsem, values
from .c02 import _dec, _enc, real_serialize, ref_serialize
from .c16 import _set, invalidations
from .c19 import reachable

ID = "C15"
LEVEL = "fault_enumeration"
ASSUMPTIONS = [
    "fault points are the public calls of EoWriter (add_*, __len__) and EoReader (get_*, next_chunk, remaining, position); "
    "the mode property itself is not faulted (a writer that cannot set its mode cannot be restored by anyone)",
    "deviation bound: one injected fault per execution (the finally path performs no faultable call)",
]


class Fault(Exception):
    pass


def _faulty(base, prop_names):
    """Subclass whose k-th public call raises Fault (k = fail_at; 0 = never)."""

    class Faulty(base):
        calls = 0
        fail_at = 0

        def _tick(self):
            self.calls += 1
            if self.calls == self.fail_at:
                self.fault = Fault(f"injected at call {self.calls}")
                raise self.fault

    def wrap(name):
        orig = getattr(base, name)

        def method(self, *a, **k):
            self._tick()
            return orig(self, *a, **k)

        method.__name__ = name
        return method

    for name in dir(base):
        if (not name.startswith("_") or name == "__len__") and callable(getattr(base, name)) and name != "slice":
            setattr(Faulty, name, wrap(name))
    for name in prop_names:
        p = getattr(base, name, None)
        if isinstance(p, property):
            def getter(self, _p=p):
                self._tick()
                return _p.fget(self)

            setattr(Faulty, name, property(getter, p.fset))
    return Faulty


_cache = {}


def faulty_writer():
    base = loader.lib("eolib.data.eo_writer").EoWriter
    if _cache.get("w", (None,))[0] is not base:
        _cache["w"] = (base, _faulty(base, ()))
    return _cache["w"][1]


def faulty_reader():
    base = loader.lib("eolib.data.eo_reader").EoReader
    if _cache.get("r", (None,))[0] is not base:
        _cache["r"] = (base, _faulty(base, ("remaining", "position")))
    return _cache["r"][1]


def ser_with_fault(cls, obj, entry, k):
    """-> (calls made, description or None)"""
    w = faulty_writer()()
    w.string_sanitization_mode = entry
    w.calls, w.fail_at = 0, k
    raised = None
    try:
        cls.serialize(w, obj)
    except BaseException as e:  # noqa: BLE001
        raised = e
    after = w.string_sanitization_mode
    if bool(after) != entry:
        how = "returned" if raised is None else f"raised {type(raised).__name__}"
        return w.calls, f"{cls.__qualname__}.serialize {how} (fault at call {k or 'none'}) and left string_sanitization_mode={after}, entered with {entry}"
    if k and w.calls >= k:
        if raised is None:
            return w.calls, f"{cls.__qualname__}.serialize swallowed the writer's exception injected at call {k}"
        if raised is not getattr(w, "fault", None):
            return w.calls, f"{cls.__qualname__}.serialize replaced the injected Fault by {type(raised).__name__}: {raised}"
    return w.calls, None


def de_with_fault(cls, data, entry, k):
    r = faulty_reader()(data)
    r.chunked_reading_mode = entry
    r.calls, r.fail_at = 0, k
    raised = None
    try:
        cls.deserialize(r)
    except BaseException as e:  # noqa: BLE001
        raised = e
    after = r.chunked_reading_mode
    if bool(after) != entry:
        how = "returned" if raised is None else f"raised {type(raised).__name__}"
        return r.calls, f"{cls.__qualname__}.deserialize({data.hex()}) {how} (fault at call {k or 'none'}) and left chunked_reading_mode={after}, entered with {entry}"
    if k and r.calls >= k:
        if raised is None:
            return r.calls, f"{cls.__qualname__}.deserialize swallowed the reader's exception injected at call {k}"
        if raised is not getattr(r, "fault", None):
            return r.calls, f"{cls.__qualname__}.deserialize replaced the injected Fault by {type(raised).__name__}: {raised}"
    return r.calls, None


def explore_instance(ad, ld, obj, counts):
    """All fault points of serialize and deserialize for the instance and every nested instance."""
    p = ld.program
    for label, o, c, u in reachable(ad, obj, ld.cls, p.node):
        for entry in (False, True):
            n, what = ser_with_fault(c, o, entry, 0)
            counts["evaluations"] += 1
            if what:
                return {"label": label, "side": "ser", "entry": entry, "k": 0}, what
            for k in range(1, n + 1):
                _, what = ser_with_fault(c, o, entry, k)
                counts["evaluations"] += 1
                counts["fault_points"] += 1
                if what:
                    return {"label": label, "side": "ser", "entry": entry, "k": k}, what
            got = real_serialize(c, o, entry)
            if got[0] != "bytes":
                continue
            datas = [got[1]] + ([got[1][: len(got[1]) // 2]] if len(got[1]) > 1 else [])
            for di, data in enumerate(datas):
                n, what = de_with_fault(c, data, entry, 0)
                counts["evaluations"] += 1
                if what:
                    return {"label": label, "side": "de", "entry": entry, "k": 0, "cut": di}, what
                for k in range(1, n + 1):
                    _, what = de_with_fault(c, data, entry, k)
                    counts["evaluations"] += 1
                    counts["fault_points"] += 1
                    if what:
                        return {"label": label, "side": "de", "entry": entry, "k": k, "cut": di}, what
    return None, None


HOSTILE = (b"\x00", b"\x00\x00", b"\x00\xff\x00", b"\x00\x00\x00\x00\x00", b"\x01\x00", b"\xff\x00\x00")


class Judge:
    def wants(self, info):
        return info.cls == "valid"

    def semantics(self, ld, ad, env, obj, val, ctx):
        from .c03 import compare

        p = ld.program
        for entry in (False, True):
            exp = ref_serialize(env, p.node, val, entry)
            if exp[0] != "bytes":
                continue
            got = real_serialize(ld.cls, obj, entry)
            ctx.counts["evaluations"] += 1
            if got[0] != "bytes" or got[1] != exp[1]:
                shown = got[1].hex() if got[0] == "bytes" else f"{got[1]}: {got[2]}"
                return f"entry sanitisation {entry}: serialized {shown}, the XML prescribes {exp[1].hex()} (a section is sanitised where it should not be, or the reverse)"
            for chunked in (False, True):
                what = compare(ld, ad, env, exp[1], chunked, 0)
                ctx.counts["evaluations"] += 1
                if what and what != "skip":
                    return f"entry chunked mode {chunked}, bytes {exp[1].hex()}: {what}"
        return None

    def judge(self, ctx, ld, info):
        p = ld.program
        if ld.cls is None:
            ctx.counts["not_loadable"] += 1
            return
        env = p.env()
        ad = e3.adaptor_for(p)
        nv = 0
        for val in values.rich_values(p.node, env, n=2 if ctx.tier == "quick" else 4):
            if ref_serialize(env, p.node, val, False)[0] != "bytes":
                continue
            try:
                obj = ad.build(ld.cls, p.node, val)
            except Exception:  # noqa: BLE001
                continue
            nv += 1
            # fault-free runs must also produce what the XML prescribes under that entry mode: this is what shows
            # that a nested structure is sanitised / chunk-read exactly where the XML says (and vice versa)
            what = self.semantics(ld, ad, env, obj, val, ctx)
            if what:
                ctx.violation(
                    f"mode-semantics:{info.ident}",
                    f"{info.host} [{info.ident}] value {val!r}: {what}",
                    {"tier": ctx.tier, "index": info.index, "value": _enc(val), "kind": "semantics"},
                )
                return
            where, what = explore_instance(ad, ld, obj, ctx.counts)
            if what:
                ctx.violation(
                    f"mode:{info.ident}:{where['side']}:{'fault' if where['k'] else 'return'}",
                    f"{info.host} [{info.ident}] value {val!r} at {where}: {what}",
                    {"tier": ctx.tier, "index": info.index, "value": _enc(val), "kind": "faults"},
                )
                return
            # validation errors at each instruction
            if nv == 1:
                for label, path, new in invalidations(p.node, env, val):
                    mut = _set(val, path, new)
                    if ref_serialize(env, p.node, mut, False)[0] not in ("sererror", "valueerror"):
                        continue
                    try:
                        bad_obj = ad.build(ld.cls, p.node, mut)
                    except Exception:  # noqa: BLE001
                        continue
                    for entry in (False, True):
                        _, what = ser_with_fault(ld.cls, bad_obj, entry, 0)
                        ctx.counts["evaluations"] += 1
                        ctx.counts["validation_errors"] += 1
                        if what:
                            ctx.violation(
                                f"mode:{info.ident}:ser:validation",
                                f"{info.host} [{info.ident}] invalid object ({label}) entry {entry}: {what}",
                                {"tier": ctx.tier, "index": info.index, "value": _enc(mut), "kind": "invalid"},
                            )
                            return
        # hostile bytes (some raise ValueError through a negative fixed-string length)
        for data in HOSTILE:
            for entry in (False, True):
                _, what = de_with_fault(ld.cls, data, entry, 0)
                ctx.counts["evaluations"] += 1
                if what:
                    ctx.violation(
                        f"mode:{info.ident}:de:hostile",
                        f"{info.host} [{info.ident}]: {what}",
                        {"tier": ctx.tier, "index": info.index, "data": data, "entry": entry, "kind": "hostile"},
                    )
                    return
        ctx.counts["values"] += nv
        ctx.sample({"program": info.ident, "values": nv})


def run(tier, seed):
    counts, violations, samples = e3.run(tier, seed, Judge())
    coverage = {
        "evaluations": counts["evaluations"],
        "distinct_nontrivial": counts["fault_points"] + counts["validation_errors"],
        "fault_points": counts["fault_points"],
        "validation_error_runs": counts["validation_errors"],
        "programs": counts["programs"],
        "values": counts["values"],
        "violations_total": counts["violations_total"],
        "exhaustive": True,
        "rule": "per valid program: first + richest value(s) x both entry modes x (fault-free run + a fault at EVERY public "
        "writer call of serialize and EVERY public reader call of deserialize of the full and of a half-length "
        "serialization), for the top-level class and every nested struct/case-data class reachable from the instance; plus "
        "every invalidating change of the C16 catalogue and 6 hostile byte strings; distinct_nontrivial counts (program, "
        "value, class, side, entry, k) fault executions and validation-error runs",
        "samples": samples[:3],
    }
    return {"coverage": coverage, "violations": violations}


def _replay_single(case):
    loader.install_shims()
    ld, info = e3.replay_program(case["tier"], int(case["index"]))
    if ld.cls is None:
        return None
    p = ld.program
    ad = e3.adaptor_for(p)
    import collections

    if case["kind"] == "hostile":
        return de_with_fault(ld.cls, bytes(case["data"]), bool(case["entry"]), 0)[1]
    obj = ad.build(ld.cls, p.node, _dec(case["value"]))
    if case["kind"] == "semantics":
        import collections as _c

        ctx = e3.Ctx(case["tier"], 0)
        return Judge().semantics(ld, ad, p.env(), obj, _dec(case["value"]), ctx)
    if case["kind"] == "invalid":
        for entry in (False, True):
            what = ser_with_fault(ld.cls, obj, entry, 0)[1]
            if what:
                return what
        return None
    _, what = explore_instance(ad, ld, obj, collections.Counter())
    return f"[{info.ident}] {what}\n{p.node.xml()}" if what else None


def replay(case):
    what = _replay_single(case)
    if what:
        return what
    return e3.replay_whole(case["tier"], int(case["index"]), Judge())
