"""C01 - generated serializers round-trip every well-formed message.

E3: every valid body x every value whose reference round trip is lossless (M10.de(M10.ser(v)) == v
with all bytes consumed - this is the "wire-unambiguous spec x non-lossy value" domain, decided per
(spec, value) pair by the reference semantics).  The oracle uses generated code only: serialize with
a fresh EoWriter, deserialize from a fresh EoReader, compare field by field through the public
properties, check exact consumption and byte_size at every nesting level.
"""

from .. import e3, loader, refsem, values
from ..specs import instructions
from .c02 import _dec, _enc, real_serialize

ID = "C01"
LEVEL = "exploration"
ASSUMPTIONS = [
    "the domain (wire-unambiguous spec, non-lossy value) is decided per pair by the reference semantics M10: "
    "de(ser(v)) == v and every byte consumed; M10 agrees with the generated code on this universe by C02/C03",
    "the oracle itself runs generated code and EoReader/EoWriter only",
    "exhaustive within the stated grammar and value bound",
]


def in_domain(env, unit, val):
    """-> bytes of the reference serialization if (spec, value) round-trips in the reference, else None."""
    try:
        data = refsem.serialize(env, unit, val, sanitize=False)
        back, pos, _ = refsem.deserialize(env, unit, data)
    except (refsem.SerError, refsem.Unspecified, ValueError):
        return None
    if pos != len(data) or values.strip_sizes(back) != _norm(val):
        return None
    if not _ref_sizes_consistent(env, unit, back):
        return None  # the reference itself attributes bytes to the wrong nested object: ambiguous wire format
    return data


def _ref_sizes_consistent(env, unit, tree):
    """In the reference reading, every nested object's byte_size equals the length of its own serialization."""
    from ..refmodels import RefWriter
    from ..xtypes import resolve

    for ins in values._scope_nodes(unit):
        if ins.tag in ("field", "array") and ins.get("name"):
            t = resolve(ins.get("type"), env)
            if t.kind != "struct":
                continue
            v = tree.get(ins.get("name"))
            for el in (v if ins.tag == "array" else [v]) or []:
                if el is None:
                    continue
                try:
                    own = refsem.serialize(env, env.structs[t.name], values.strip_sizes(el))
                except (refsem.SerError, refsem.Unspecified, ValueError):
                    return False
                if len(own) != el["byte_size"] or not _ref_sizes_consistent(env, env.structs[t.name], el):
                    return False
        elif ins.tag == "switch":
            data = tree.get(ins.get("field") + "_data")
            if data is None:
                continue
            c = next(c for c in ins.kids if c.tag == "case" and refsem.case_key(c) == data["__case__"])
            W = RefWriter()
            try:
                refsem.Ser(env).unit(c, values.strip_sizes(data), W)
            except (refsem.SerError, refsem.Unspecified, ValueError):
                return False
            if len(W.buf) != data["byte_size"] or not _ref_sizes_consistent(env, c, data):
                return False
    return True


def _norm(v):
    if isinstance(v, dict):
        return {k: _norm(x) for k, x in v.items()}
    if isinstance(v, (list, tuple)):
        return tuple(_norm(x) for x in v)
    if isinstance(v, bytearray):
        return bytes(v)
    return v


def roundtrip(ld, ad, val):
    """The property's own oracle on one (class, value). -> description or None"""
    p = ld.program
    R = loader.lib("eolib.data.eo_reader").EoReader
    try:
        obj = ad.build(ld.cls, p.node, val)
    except Exception as e:  # noqa: BLE001
        return f"valid value cannot be constructed: {type(e).__name__}: {e}"
    got = real_serialize(ld.cls, obj, False)
    if got[0] != "bytes":
        return f"serialize raised {got[1]}: {got[2]}"
    data = got[1]
    try:
        r = R(data)
        back = ld.cls.deserialize(r)
        seen = ad.observe(back, ld.cls, p.node)
        orig = values.strip_sizes(ad.observe(obj, ld.cls, p.node, with_size=False))
    except Exception as e:  # noqa: BLE001
        return f"deserialize of own output {data.hex()} raised {type(e).__name__}: {e}"
    if orig != _norm(val):
        return f"constructed object reads back as {orig!r} through its properties"
    if values.strip_sizes(seen) != _norm(val):
        return f"wrote {data.hex()}, read back {values.strip_sizes(seen)!r}"
    if r.remaining != 0 or r.position != len(data):
        return f"deserializer consumed {r.position} of {len(data)} bytes ({data.hex()})"
    if back.byte_size != len(data):
        return f"byte_size {back.byte_size} but {len(data)} bytes were written"
    bad = nested_sizes(ad, back, ld.cls, p.node)
    if bad:
        return bad
    return None


def nested_sizes(ad, obj, cls, unit):
    """Every nested struct / case-data object's byte_size equals the length of its own serialization."""
    from ..xtypes import resolve

    for ins in values._scope_nodes(unit):
        if ins.tag in ("field", "array") and ins.get("name"):
            t = resolve(ins.get("type"), ad.env)
            if t.kind != "struct":
                continue
            v = getattr(obj, ins.get("name"))
            items = v if ins.tag == "array" else [v]
            for el in items or []:
                if el is None:
                    continue
                c = ad.type_class(t.name)
                got = real_serialize(c, el, False)
                if got[0] == "bytes" and el.byte_size != len(got[1]):
                    return f"nested {t.name}.byte_size = {el.byte_size} but it serializes to {len(got[1])} bytes"
                bad = nested_sizes(ad, el, c, ad.env.structs[t.name])
                if bad:
                    return bad
        elif ins.tag == "switch":
            data = getattr(obj, ins.get("field") + "_data")
            if data is None:
                continue
            for c in ins.kids:
                if c.tag == "case" and instructions(c) and type(data) is ad.case_class(cls, ins.get("field"), c):
                    got = real_serialize(type(data), data, False)
                    if got[0] == "bytes" and data.byte_size != len(got[1]):
                        return f"case data {type(data).__name__}.byte_size = {data.byte_size} but it serializes to {len(got[1])} bytes"
                    bad = nested_sizes(ad, data, type(data), c)
                    if bad:
                        return bad
    return None


class Judge:
    def wants(self, info):
        return info.cls == "valid"

    def judge(self, ctx, ld, info):
        p = ld.program
        if ld.cls is None:
            ctx.counts["not_loadable"] += 1
            return
        env = p.env()
        ad = e3.adaptor_for(p)
        cap = 256 if ctx.tier == "quick" else 1024
        n = 0
        first = []

        def all_values():
            for val in values.enumerate_values(p.node, env, cap=cap):
                yield val
            # items measured by a length field, at the longest and shortest length that field can carry
            for base in first[:1]:
                for _label, val in values.boundary_values(p.node, env, base, short_too=info.ident.startswith("corpus:")):
                    ctx.counts["length_boundary_values"] += 1
                    yield val

        for val in all_values():
            if in_domain(env, p.node, val) is None:
                ctx.counts["excluded_by_reference"] += 1
                continue
            if not first:
                first.append(val)
            n += 1
            ctx.counts["evaluations"] += 1
            what = roundtrip(ld, ad, val)
            if what:
                shape = what.split(":")[0][:40]
                ctx.violation(
                    f"roundtrip:{info.ident}:{shape}",
                    f"{info.host} [{info.ident}] value {val!r}: {what}",
                    {"tier": ctx.tier, "index": info.index, "value": _enc(val)},
                )
                return
        ctx.counts["values"] += n
        if n:
            ctx.counts["programs_with_values"] += 1
            ctx.sample({"program": info.ident, "host": info.host, "in_domain_values": n})


def run(tier, seed):
    counts, violations, samples = e3.run(tier, seed, Judge())
    coverage = {
        "evaluations": counts["evaluations"],
        "distinct_nontrivial": counts["values"],
        "programs": counts["programs"],
        "programs_with_in_domain_values": counts["programs_with_values"],
        "excluded_by_reference": counts["excluded_by_reference"],
        "not_loadable": counts["not_loadable"],
        "length_boundary_values": counts["length_boundary_values"],
        "violations_total": counts["violations_total"],
        "exhaustive": True,
        "rule": "every M9-valid body of the tier grammar in its hosts + corpus (real generator), every value of the domain "
        "product that the reference semantics round-trips losslessly; each (program, value) pair is one distinct case; "
        "oracle: construct -> serialize(fresh EoWriter) -> deserialize(fresh EoReader) -> field-by-field equality through "
        "public properties (types included), remaining == 0, byte_size == bytes written, nested byte_size == own serialization",
        "samples": samples[:3],
    }
    return {"coverage": coverage, "violations": violations}


def _replay_single(case):
    loader.install_shims()
    ld, info = e3.replay_program(case["tier"], int(case["index"]))
    if ld.cls is None:
        return None
    val = _dec(case["value"])
    if in_domain(ld.program.env(), ld.program.node, val) is None:
        return None
    what = roundtrip(ld, e3.adaptor_for(ld.program), val)
    return f"[{info.ident}] value {val!r}: {what}\n{ld.program.node.xml()}" if what else None


def replay(case):
    what = _replay_single(case)
    if what:
        return what
    if case.get("kind") in ("spelling",):
        return None
    what = e3.replay_whole(case["tier"], int(case["index"]), Judge())
    if what or not case.get("shard"):
        return what
    return e3.replay_shard(case["tier"], case["shard"], Judge())
