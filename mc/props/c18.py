"""C18 - generation is deterministic and always yields an importable package.

Configurations are enumerated, not sampled:
  in-process (E2): every order in which os.walk may list the directories (12), every iteration-order
      policy for the import sets / the input of sorted() (6), output directory fresh / pre-populated by an
      identical run / pre-populated with same-named garbage, the same generator object run twice;
  subprocess: the real `python protocol.py generate` under 8 hash seeds, then `import eolib` in a fresh
      interpreter: every declared enum/struct/packet is a class exported from its subpackage and from the
      top-level package as one object.
Programs: the corpus tree, cross-file trees, the minimal tree, and (for "the generator succeeds for
every valid spec") every valid program of the E3 universe.
"""

import collections
import itertools
import os
import shutil
from pathlib import Path

from .. import choices, e3, genpipe, loader, par, realflow, specs, trees

ID = "C18"
LEVEL = "exploration"
ASSUMPTIONS = [
    "directory enumeration order is owned through protocol_code_generator.generate.code_generator.os.walk; set iteration "
    "order through module-level `set`/`sorted` shadows in code_block plus 8 real hash seeds",
    "not asserted: stale files left by a DIFFERENT earlier spec when generate() is called without protocol.py's clean()",
]

PROBE = r"""
import sys, json, importlib
out = {"missing": [], "notclass": [], "mismatch": []}
try:
    import eolib
except BaseException as e:
    print(json.dumps({"import_error": type(e).__name__ + ": " + str(e)[:300]})); raise SystemExit(0)
decl = json.loads(sys.argv[1])
for sub, name in decl:
    modname = "eolib.protocol" + ("." + sub if sub else "")
    try:
        importlib.import_module(modname)
    except BaseException as e:
        out["missing"].append([modname, name, "import: " + type(e).__name__]); continue
    home = sys.modules[modname]
    a = getattr(home, name, None)
    b = getattr(eolib, name, None)
    if a is None or b is None:
        out["missing"].append([modname, name, "home" if a is None else "top-level"])
    elif not isinstance(a, type):
        out["notclass"].append([modname, name, type(a).__name__])
    elif a is not b:
        out["mismatch"].append([modname, name])
print(json.dumps(out))
"""


# ---------------------------------------------------------------- in-process configurations
class OrderedSet(set):
    policy = 0

    def __iter__(self):
        items = list(set.__iter__(self))
        return iter(_reorder(items, OrderedSet.policy))


def _reorder(items, policy):
    try:
        base = sorted(items, key=repr)
    except Exception:  # noqa: BLE001
        base = list(items)
    if policy == 0:
        return base
    if policy == 1:
        return base[::-1]
    if policy == 2:
        return base[1:] + base[:1]
    if policy == 3:
        return base[len(base) // 2 :] + base[: len(base) // 2]
    if policy == 4:
        return base[::2] + base[1::2]
    return (base[::-1])[1:] + (base[::-1])[:1]


N_POLICIES = 6


def _walk_factory(order_choice):
    """os.walk replacement: top-down, directory order decided per level by `order_choice`."""
    real_listdir = os.listdir

    def walk(top):
        names = sorted(real_listdir(top))
        dirs = [n for n in names if os.path.isdir(os.path.join(top, n))]
        files = [n for n in names if not os.path.isdir(os.path.join(top, n))]
        perms = list(itertools.permutations(dirs))
        dirs = list(perms[order_choice(len(perms))]) if len(perms) > 1 else dirs
        yield top, dirs, files
        for d in dirs:
            yield from walk(os.path.join(top, d))

    return walk


def generate_with(in_dir, out_dir, walk_choices=None, policy=0, twice=False):
    """Run the real generator in-process under a chosen environment. -> (error or None, choices made)"""
    gen = loader.generator()
    cb = __import__("protocol_code_generator.generate.code_block", fromlist=["x"])
    ch = choices.Chooser(walk_choices or [])

    class FakeOs:
        def __getattr__(self, name):
            return getattr(os, name)

    fake = FakeOs()
    fake.walk = _walk_factory(lambda n: ch.choose(n, "os.walk order"))
    old_os, had_set, had_sorted = gen.os, cb.__dict__.get("set"), cb.__dict__.get("sorted")
    OrderedSet.policy = policy
    gen.os = fake
    cb.set = OrderedSet
    cb.sorted = lambda it, **kw: sorted(_reorder(list(it), policy), **kw)
    try:
        import contextlib
        import io

        with contextlib.redirect_stdout(io.StringIO()):
            g = gen.ProtocolCodeGenerator(Path(in_dir))
            g.generate(Path(out_dir))
            if twice:
                g.generate(Path(out_dir + "-second"))
        return None, ch.choices
    except Exception as e:  # noqa: BLE001
        return e, ch.choices
    finally:
        gen.os = old_os
        for name, had in (("set", had_set), ("sorted", had_sorted)):
            if had is None:
                cb.__dict__.pop(name, None)
            else:
                setattr(cb, name, had)


def inprocess_tree(job):
    name, files, nf = job
    loader.install_shims()
    work = loader.scratch_dir("c18")
    bad, runs = [], 0
    try:
        in_dir = os.path.join(work, "xml")
        genpipe.write_tree(files, in_dir, n_families=nf)
        ref_out = os.path.join(work, "ref")
        err, _ = generate_with(in_dir, ref_out)
        runs += 1
        if err is not None:
            return name, runs, [({"tree": name, "config": "default"}, f"tree '{name}': the generator failed on a valid tree: {type(err).__name__}: {err}")]
        ref = realflow.snapshot(ref_out)
        # every directory order x every set/sorted policy
        walk_orders = []
        for chs, _ in choices.explore(lambda c: generate_with(in_dir, os.path.join(work, "probe"), None, 0)[0] if False else _probe_orders(in_dir, c)):
            walk_orders.append(chs)
        for order in walk_orders:
            for policy in range(N_POLICIES):
                out = os.path.join(work, "o")
                shutil.rmtree(out, ignore_errors=True)
                err, _ = generate_with(in_dir, out, order, policy)
                runs += 1
                cfg = {"tree": name, "config": "order", "walk": order, "policy": policy}
                if err is not None:
                    bad.append((cfg, f"tree '{name}' walk order {order} set policy {policy}: generator failed: {type(err).__name__}: {err}"))
                    continue
                d = realflow.diff_snapshots(ref, realflow.snapshot(out))
                if d:
                    bad.append((cfg, f"tree '{name}': output differs under directory order {order} / iteration policy {policy}: {d[:4]}"))
                if len(bad) >= 3:
                    return name, runs, bad
        # pre-populated output directories, same generator object twice
        for config in ("identical", "garbage", "twice"):
            out = os.path.join(work, "p")
            shutil.rmtree(out, ignore_errors=True)
            shutil.rmtree(out + "-second", ignore_errors=True)
            if config == "identical":
                shutil.copytree(ref_out, out)
            elif config == "garbage":
                shutil.copytree(ref_out, out)
                for base, _, fs in os.walk(out):
                    for f in fs:
                        with open(os.path.join(base, f), "w") as fh:
                            fh.write("this is not python (" * 50)
            err, _ = generate_with(in_dir, out, None, 0, twice=(config == "twice"))
            runs += 1
            cfg = {"tree": name, "config": config}
            if err is not None:
                bad.append((cfg, f"tree '{name}' into a {config} output directory: generator failed: {type(err).__name__}: {err}"))
                continue
            d = realflow.diff_snapshots(ref, realflow.snapshot(out))
            if not d and config == "twice":
                d = realflow.diff_snapshots(ref, realflow.snapshot(out + "-second"))
            if d:
                bad.append((cfg, f"tree '{name}': output differs when generated into a {config} directory / second run: {d[:4]}"))
        # one generator OBJECT, two different trees: it first generates an earlier version of the tree (enum ordinals
        # renumbered, one field more in every struct), the files are then replaced by the real tree and it generates
        # again - the second output must be what a fresh object produces from the real tree
        earlier = _earlier_version(files)
        if earlier is not None:
            out = os.path.join(work, "r")
            shutil.rmtree(out, ignore_errors=True)
            xml2 = os.path.join(work, "xml-reuse")
            shutil.rmtree(xml2, ignore_errors=True)
            genpipe.write_tree(earlier, xml2, n_families=nf)

            def rewrite():
                shutil.rmtree(xml2)
                genpipe.write_tree(files, xml2, n_families=nf)

            how, err = genpipe.run_generator_twice(xml2, out, rewrite)
            runs += 2
            cfg = {"tree": name, "config": "reused-object-after-edit"}
            if how == "raised":
                bad.append((cfg, f"tree '{name}': a generator object that generated an earlier version of the tree fails on the current one: {type(err).__name__}: {err}"))
            elif how == "returned":
                d = realflow.diff_snapshots(ref, realflow.snapshot(os.path.join(out, "second")))
                if d:
                    bad.append((cfg, f"tree '{name}': output differs when the generator object generated an earlier version of the tree before (enum ordinals renumbered, structs one field longer): {d[:4]}"))
        # how the caller SPELLS the two directories is an environment answer too: relative to the working directory,
        # ".", with "./" and "../" components - the output must be the same files
        base = os.path.basename(work)
        spellings = [
            ("input '.'", in_dir, ".", os.path.join(work, "s")),
            ("input 'xml', output 's'", work, "xml", "s"),
            ("input './xml'", work, "./xml", os.path.join(work, "s")),
            (f"input '../{base}/xml'", work, f"../{base}/xml", "./s"),
            ("output '.'", os.path.join(work, "s"), in_dir, "."),
            ("input 'xml/' from the parent's parent", os.path.dirname(work), f"{base}/xml/", f"{base}/s"),
            # a checkout directory whose name holds characters that mean something to glob / fnmatch / regular expressions
            ("input below a directory named 'eo [fork-v1] (x)*'", work, os.path.join(work, "eo [fork-v1] (x)*", "xml"), os.path.join(work, "s")),
        ]
        odd = os.path.join(work, "eo [fork-v1] (x)*")
        shutil.rmtree(odd, ignore_errors=True)
        shutil.copytree(in_dir, os.path.join(odd, "xml"))
        for label, cwd, in_spelled, out_spelled in spellings:
            out = os.path.join(work, "s")
            shutil.rmtree(out, ignore_errors=True)
            os.makedirs(out if out_spelled == "." else work, exist_ok=True)
            old_cwd = os.getcwd()
            try:
                os.chdir(cwd)
                err, _ = generate_with(in_spelled, out_spelled)
            finally:
                os.chdir(old_cwd)
            runs += 1
            cfg = {"tree": name, "config": "spelling:" + label}
            if err is not None:
                bad.append((cfg, f"tree '{name}' with {label} (cwd {cwd.replace(work, '<work>')}): generator failed: {type(err).__name__}: {err}"))
                continue
            d = realflow.diff_snapshots(ref, realflow.snapshot(out))
            if d:
                bad.append((cfg, f"tree '{name}': output differs when the directories are given as {label}: {d[:4]}"))
        return name, runs, bad
    finally:
        shutil.rmtree(work, ignore_errors=True)


def _earlier_version(files):
    """The same declarations with every enum's non-zero ordinals shifted by one and a field appended to every struct
    (None if the shift would collide or leave the wire range - then the configuration is skipped for this tree)."""
    from ..specs import field

    out = {}
    for d, nodes in files.items():
        new = []
        for n in nodes:
            c = n.copy()
            if c.tag == "enum":
                vals = [int(v.text) for v in c.kids if v.tag == "value"]
                shifted = [v + 1 if v else v for v in vals]
                if len(set(shifted)) != len(shifted) or max(shifted, default=0) >= 250:
                    return None
                for v in c.kids:
                    if v.tag == "value" and int(v.text):
                        v.text = str(int(v.text) + 1)
            elif c.tag == "struct" and not any(k.tag in ("dummy",) for k in c.walk()):
                if any(k.tag == "chunked" for k in c.kids) or any((k.get("optional") or "") == "true" for k in c.kids) or (c.kids and c.kids[-1].tag in ("array", "switch", "field") and c.kids[-1].get("length") is None and c.kids[-1].get("type") in ("string", "encoded_string", "blob", None)):
                    pass
                else:
                    c.kids.append(field("zz_earlier", "char"))
            new.append(c)
        out[d] = new
    return out


def _probe_orders(in_dir, chooser):
    """Drive only the walk (cheap) to enumerate every directory-order choice sequence."""
    walk = _walk_factory(lambda n: chooser.choose(n, "os.walk order"))
    for _ in walk(in_dir):
        pass
    return None


# ---------------------------------------------------------------- subprocess configurations
def subprocess_tree(job):
    name, files, nf, seeds = job
    loader.install_shims()
    root = realflow.make_install(files, n_families=nf)
    bad, runs = [], 0
    try:
        ref = None
        for s in seeds:
            rc, out = realflow.run_generate(root, hashseed=s)
            runs += 1
            cfg = {"tree": name, "config": "hashseed", "seed": s}
            if rc != 0:
                bad.append((cfg, f"tree '{name}': `protocol.py generate` failed under PYTHONHASHSEED={s}: {out[-300:]}"))
                break
            snap = realflow.snapshot(realflow.generated_dir(root))
            if ref is None:
                ref = snap
            else:
                d = realflow.diff_snapshots(ref, snap)
                if d:
                    bad.append((cfg, f"tree '{name}': generated files differ between PYTHONHASHSEED={seeds[0]} and {s}: {d[:4]}"))
                    break
        # the process environment is a configuration too: an ASCII default encoding, another working directory
        for cfg_name, kw in (("ascii-locale", {"ascii_locale": True}), ("foreign-cwd", {"foreign_cwd": True})):
            if bad:
                break
            rc, out = realflow.run_generate(root, hashseed=seeds[0], **kw)
            runs += 1
            cfg = {"tree": name, "config": cfg_name}
            if rc != 0:
                bad.append((cfg, f"tree '{name}': `protocol.py generate` failed in configuration {cfg_name}: {out[-300:]}"))
                break
            d = realflow.diff_snapshots(ref, realflow.snapshot(realflow.generated_dir(root)))
            if d:
                bad.append((cfg, f"tree '{name}': generated files differ in configuration {cfg_name}: {d[:4]}"))
        if not bad:
            import json

            decl = realflow.declared_types(files, nf)
            res = realflow.probe(root, PROBE, [json.dumps(decl)])
            runs += 1
            cfg = {"tree": name, "config": "import"}
            if res.get("probe_failed") or res.get("import_error"):
                err = str(res.get("import_error") or "probe failed")
                cfg["detail"] = err.split("(")[0].strip()[:90]
                bad.append((cfg, f"tree '{name}': `import eolib` fails on the generated package: {res}"))
            else:
                for k in ("missing", "notclass", "mismatch"):
                    if res[k]:
                        cfg["detail"] = k + ":" + ",".join(sorted({x[1] for x in res[k]}))[:120]
                        bad.append((cfg, f"tree '{name}': declared types {k}: {res[k][:5]}"))
                        break
        return name, runs, bad, len(realflow.declared_types(files, nf))
    finally:
        shutil.rmtree(root, ignore_errors=True)


# ---------------------------------------------------------------- every valid program generates and imports
class LoadJudge:
    def wants(self, info):
        return info.cls == "valid"

    def judge(self, ctx, ld, info):
        ctx.counts["evaluations"] += 1
        if ld.cls is None:
            err = ld.gen_error or ld.import_error
            kind = "generator failed" if ld.gen_error else "generated module does not import"
            ctx.violation(
                f"valid-spec:{kind}:{'empty-unit' if not specs.instructions(ld.program.node) else info.ident}",
                f"{info.host} [{info.ident}] is a valid specification but {kind}: {err}\n{ld.program.node.xml()}",
                {"tier": ctx.tier, "index": info.index, "kind": "program"},
            )


def run(tier, seed):
    loader.install_shims()
    tl = trees.all_trees(tier)
    violations = []
    res = par.pmap(inprocess_tree, tl)
    inproc_runs = sum(r[1] for r in res)
    for name, _, bads in res:
        for cfg, what in bads:
            violations.append({"key": f"determinism:{name}:{cfg['config']}", "what": what, "case": dict(cfg, kind="inprocess")})
    seeds = [(seed * 8 + k) % 4294967296 for k in range(8)]
    res2 = par.pmap(subprocess_tree, [(n, f, nf, seeds) for n, f, nf in tl])
    sub_runs = sum(r[1] for r in res2)
    ntypes = sum(r[3] for r in res2)
    for name, _, bads, _ in res2:
        for cfg, what in bads:
            violations.append({"key": f"package:{name}:{cfg['config']}:{cfg.get('detail', '')}", "what": what, "case": dict(cfg, kind="subprocess", seeds=seeds)})
    counts, v3, _ = e3.run(tier, seed, LoadJudge())
    violations += v3
    total = inproc_runs + sub_runs + counts["evaluations"]
    coverage = {
        "evaluations": total,
        "distinct_nontrivial": total,
        "trees": [t[0] for t in tl],
        "inprocess_generator_runs": inproc_runs,
        "walk_orders_per_tree": 12,
        "iteration_policies": N_POLICIES,
        "subprocess_runs": sub_runs,
        "hash_seeds": seeds,
        "declared_types_checked": ntypes,
        "valid_programs_generated_and_imported": counts["evaluations"],
        "exhaustive": True,
        "rule": "per tree: every os.walk directory order (E2 choice tree: 3! x 2! x 1) x every iteration-order policy of the "
        "import sets / sorted() input, + output dir pre-populated (identical, garbage) + same generator object twice, all "
        "compared file-by-file with the reference run; real `protocol.py generate` under 8 hash seeds (block chosen by "
        "VERIF_SEED), under an ASCII default encoding and from a foreign working directory, compared byte-for-byte, then a fresh interpreter checks every declared type; plus every valid program "
        "of the E3 universe must generate and import.  Each run/configuration is a distinct case.",
        "samples": [{"tree": tl[1][0], "files": {k: [n.xml() for n in v][:2] for k, v in tl[1][1].items()}}],
    }
    return {"coverage": coverage, "violations": violations}


def replay(case):
    loader.install_shims()
    if case["kind"] == "program":
        ld, info = e3.replay_program(case["tier"], int(case["index"]))
        if ld.cls is None:
            return f"[{info.ident}] valid specification: {ld.gen_error or ld.import_error}\n{ld.program.node.xml()}"
        return None
    tl = {t[0]: t for t in trees.all_trees("quick")}
    name, files, nf = tl[case["tree"]]
    if case["kind"] == "inprocess":
        _, _, bads = inprocess_tree((name, files, nf))
        return bads[0][1] if bads else None
    _, _, bads, _ = subprocess_tree((name, files, nf, [int(s) for s in case["seeds"]]))
    return bads[0][1] if bads else None
