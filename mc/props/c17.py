"""C17 - the generator rejects ill-formed specifications instead of emitting code.

E3: (i) every body of the tier's grammar that the rules M9 classify as invalid; (ii) for every valid
program, EVERY single rule-violating edit of the catalogue at EVERY eligible site (top level, inside
chunked, inside a switch case, inside a case inside chunked; unit level and tree level, each of the
six files).  The real generator must raise (any exception class); returning is the violation.
"""

import collections
import shutil

from .. import e3, genpipe, loader, par, specs, wellformed
from ..specs import N, array, brk, case, dummy, enum, field, instructions, length, packet, struct, switch
from ..xtypes import resolve

ID = "C17"
LEVEL = "exploration"
ASSUMPTIONS = [
    "a unit-level edit is judged only if the independent rule set M9 classifies the edited unit as invalid (edits that "
    "happen to stay well-formed or land in an unspecified shape are counted, not judged)",
    "tree-level edits (type redefinition, enum/packet/root errors) are ill-formed by construction",
    "any exception class counts as a rejection",
]


# ---------------------------------------------------------------- unit-level edits
# spellings Python's int() / bool conventions would accept but the format (decimal digits; true / false) does not
BAD_INT_LITERALS = ("abc", "-1", "+7", "1_0", "1.5", "0x1", "1e3", "-0", "\u0663", "\u00b2")  # the last two: str.isdigit() is true for them
BAD_BOOL_LITERALS = ("yes", "True", "TRUE", "1", "0")


def sites(unit):
    """(parent node, index, ctx) for every instruction position, ctx = {'chunked':bool,'case':bool}"""
    out = []

    def walk(parent, ctx):
        for i, k in enumerate(parent.kids):
            if k.tag in specs.INSTR_TAGS:
                out.append((parent, i, dict(ctx)))
                if k.tag == "chunked":
                    walk(k, dict(ctx, chunked=True))
                elif k.tag == "switch":
                    for c in k.kids:
                        if c.tag == "case":
                            walk(c, dict(ctx, case=True))
        out.append((parent, len(parent.kids), dict(ctx)))  # the position after the last child

    walk(unit, {"chunked": False, "case": False})
    return out


def unit_edits(unit):
    """Yield (label, edited copy of unit).  Each edit changes one thing at one site."""
    paths = []

    def index_paths(node, path):
        for i, k in enumerate(node.kids):
            paths.append(path + (i,))
            index_paths(k, path + (i,))

    index_paths(unit, ())

    def at(root, path):
        n = root
        for i in path:
            n = n.kids[i]
        return n

    def edited(path, fn):
        c = unit.copy()
        fn(at(c, path[:-1]) if path else None, path[-1] if path else None, at(c, path))
        return c

    for path in paths:
        node = at(unit, path)
        tag = node.tag
        if tag in ("field", "array", "length", "dummy"):
            yield "W2 undefined type", edited(path, lambda par_, i, n: n.attrs.__setitem__("type", "Nope"))
            yield "W3 type with two colons", edited(path, lambda par_, i, n: n.attrs.__setitem__("type", n.get("type") + ":char:char"))
            yield "W17 missing type", edited(path, lambda par_, i, n: n.attrs.pop("type"))
        if tag in ("field", "array", "length") and node.get("name") is not None:
            yield "W5 duplicate field name", edited(path, lambda par_, i, n: par_.kids.insert(i + 1, field(n.get("name"), "char", optional=n.get("optional")) if n.get("optional") else field(n.get("name"), "char")))
        if tag == "field" and node.get("name") is not None and node.text is None:
            t = node.get("type")
            yield "W13 unnamed field without value", edited(path, lambda par_, i, n: n.attrs.pop("name"))
            if t in ("char", "short", "three", "int", "byte"):
                yield "W7 length on non-string", edited(path, lambda par_, i, n: n.attrs.__setitem__("length", "2"))
                yield "W7 referenced length on non-string", edited(path, lambda par_, i, n: (par_.kids.insert(i, length("zq3", "char")), n.attrs.__setitem__("length", "zq3")))
                for bad in BAD_INT_LITERALS:
                    yield f"W14 named literal of wrong type ({bad!r})", edited(path, lambda par_, i, n, bad=bad: setattr(n, "text", bad))
                yield "W3 override on integer", edited(path, lambda par_, i, n: n.attrs.__setitem__("type", t + ":short" if t != "short" else "char:int"))
            if t == "bool":
                for bad in BAD_BOOL_LITERALS:
                    yield f"W14 named bool literal of wrong type ({bad!r})", edited(path, lambda par_, i, n, bad=bad: setattr(n, "text", bad))
                yield "W3 bool override non-integer", edited(path, lambda par_, i, n: n.attrs.__setitem__("type", "bool:string"))
            if t in ("E1", "E2", "E3", "P", "V", "U", "K", "O", "blob"):
                yield "W14 literal on non-basic type", edited(path, lambda par_, i, n: setattr(n, "text", "1"))
            if t in ("E1", "E2"):
                yield "W3 enum override non-integer", edited(path, lambda par_, i, n: n.attrs.__setitem__("type", t + ":string"))
                yield "W3 enum overriding itself", edited(path, lambda par_, i, n: n.attrs.__setitem__("type", t + ":" + t))
            if t in ("P", "string", "blob"):
                yield "W3 override on type without underlying type", edited(path, lambda par_, i, n: n.attrs.__setitem__("type", t + ":char"))
            if t in ("string", "encoded_string"):
                yield "W6 length names an undeclared field", edited(path, lambda par_, i, n: n.attrs.__setitem__("length", "nope"))
                yield "W6 length names an ordinary (non-length) field", edited(path, lambda par_, i, n: (par_.kids.insert(i, field("zq1", "char")), n.attrs.__setitem__("length", "zq1")))
                yield "W6 length in another digit script", edited(path, lambda par_, i, n: n.attrs.__setitem__("length", "\u0663"))
                if node.get("length") is None:
                    yield "W14 fixed literal of wrong length", edited(path, lambda par_, i, n: (setattr(n, "text", "hi"), n.attrs.__setitem__("length", "3"), n.attrs.pop("optional", None)))
        if tag == "field" and node.get("name") is None and node.text is not None:
            t = node.get("type")
            yield "W13 optional unnamed field", edited(path, lambda par_, i, n: n.attrs.__setitem__("optional", "true"))
            if t in ("char", "short"):
                for bad in ("12a",) + BAD_INT_LITERALS[1:]:
                    yield f"W14 unnamed literal of wrong type ({bad!r})", edited(path, lambda par_, i, n, bad=bad: setattr(n, "text", bad))
            if t == "bool":
                for bad in ("True",) + BAD_BOOL_LITERALS[1:]:
                    yield f"W14 unnamed bool literal of wrong type ({bad!r})", edited(path, lambda par_, i, n, bad=bad: setattr(n, "text", bad))
            if t == "string" and node.get("length"):
                yield "W14 literal length mismatch", edited(path, lambda par_, i, n: setattr(n, "text", n.text + "x"))
        if tag == "array":
            yield "W9 array without name", edited(path, lambda par_, i, n: n.attrs.pop("name"))
            if not (node.get("delimited") or "").lower() == "true":
                for el in ("U", "string", "blob"):
                    yield f"W9 non-delimited array of unbounded {el}", edited(path, lambda par_, i, n, el=el: n.attrs.__setitem__("type", el))
                yield "W9 delimited outside chunked (if outside)", edited(path, lambda par_, i, n: n.attrs.__setitem__("delimited", "true"))
            yield "W6 array length names an undeclared field", edited(path, lambda par_, i, n: n.attrs.__setitem__("length", "nope"))
            yield "W6 array length names an ordinary (non-length) field", edited(path, lambda par_, i, n: (par_.kids.insert(i, field("zq2", "short")), n.attrs.__setitem__("length", "zq2")))
            yield "W6 array length in another digit script", edited(path, lambda par_, i, n: n.attrs.__setitem__("length", "\u00b2"))
        if tag == "length":
            yield "W8 length without name", edited(path, lambda par_, i, n: n.attrs.pop("name"))
            for bad in ("string", "bool", "E1", "P", "blob"):
                yield f"W8 length field of type {bad}", edited(path, lambda par_, i, n, bad=bad: n.attrs.__setitem__("type", bad))
            # second reference to the same length field
            yield "W6 length referenced twice", edited(path, lambda par_, i, n: _append_after_ref(par_, n))
            # reference before declaration: move the <length> behind its referencing field
            yield "W6 length declared after its reference", edited(path, lambda par_, i, n: _move_length_back(par_, i))
        if tag == "dummy":
            yield "W14 dummy literal of wrong type", edited(path, lambda par_, i, n: setattr(n, "text", "x" if n.get("type") != "string" else n.text) or n.attrs.__setitem__("type", "char"))
            yield "W14 dummy of struct type", edited(path, lambda par_, i, n: n.attrs.__setitem__("type", "P"))
            yield "W12 field after dummy", edited(path, lambda par_, i, n: par_.kids.insert(i + 1, field("zz1", "char")))
            yield "W12 break after dummy", edited(path, lambda par_, i, n: par_.kids.insert(i + 1, brk()))
            yield "W12 dummy after dummy", edited(path, lambda par_, i, n: par_.kids.insert(i + 1, dummy("char", "0")))
        if tag == "switch":
            yield "W17 switch without field", edited(path, lambda par_, i, n: n.attrs.pop("field"))
            yield "W15 switch on undeclared field", edited(path, lambda par_, i, n: n.attrs.__setitem__("field", "nope"))
            for bad_t, mk in (("array", lambda: array("zz2", "char", length="1")), ("string", lambda: field("zz2", "string", length="1")),
                              ("struct", lambda: field("zz2", "P")), ("bool", lambda: field("zz2", "bool"))):
                yield f"W15 switch on {bad_t} field", edited(path, lambda par_, i, n, mk=mk: (par_.kids.insert(i, mk()), n.attrs.__setitem__("field", "zz2")))
            yield "W15 default as first case", edited(path, lambda par_, i, n: n.kids[0].attrs.clear() or n.kids[0].attrs.__setitem__("default", "true"))
            yield "W15 case value not a member / not a number", edited(path, lambda par_, i, n: n.kids[0].attrs.__setitem__("value", "Zzz"))
            yield "W15 case value in another digit script", edited(path, lambda par_, i, n: n.kids[0].attrs.__setitem__("value", "\u0663"))
            yield "W17 case without value", edited(path, lambda par_, i, n: n.kids[0].attrs.pop("value", None))
            yield "W15 enum ordinal that has a name", edited(path, lambda par_, i, n: n.kids[0].attrs.__setitem__("value", "1") if _switch_is_enum(unit, n) else n.kids[0].attrs.__setitem__("value", "-1"))
            yield "W12 instruction after a switch whose case holds a dummy", edited(path, lambda par_, i, n: (n.kids[0].kids.append(dummy("char", "0")), par_.kids.insert(i + 1, field("zz3", "char"))))
            yield "W11 required after a switch whose case ended optional", edited(path, lambda par_, i, n: (n.kids[0].kids.append(field("zz4", "char", optional="true")), par_.kids.insert(i + 1, field("zz3", "char"))))
            yield "W15 switch field declared in the enclosing scope only", edited(path, lambda par_, i, n: n.kids[0].kids.append(switch(n.get("field"), [case(n.kids[0].get("value") or "1", [field("zz5", "char")])])))
            yield "W6 case body references the enclosing scope's length field", edited(path, lambda par_, i, n: (par_.kids.insert(i, length("zz6", "char")), n.kids[0].kids.insert(0, field("zz7", "string", length="zz6"))))
        if tag in ("field", "array") and (node.get("optional") or "").lower() == "true":
            yield "W11 required field after optional", edited(path, lambda par_, i, n: par_.kids.insert(i + 1, field("zz8", "char")))
            yield "W11 required array after optional", edited(path, lambda par_, i, n: par_.kids.insert(i + 1, array("zz8", "char", length="1")))
            yield "W11 length after optional", edited(path, lambda par_, i, n: (par_.kids.insert(i + 1, length("zz8", "char")), par_.kids.insert(i + 2, field("zz9", "string", length="zz8", optional="true"))))
    # site-based insertions
    for parent_path, idx, ctx in _site_paths(unit):
        if not ctx["chunked"]:
            yield "W10 break outside chunked", _insert(unit, parent_path, idx, brk())
            yield "W9 delimited array outside chunked", _insert(unit, parent_path, idx, array("zz10", "char", delimited="true", optional="true"))
        yield "W14 unnamed literal of wrong type (inserted)", _insert(unit, parent_path, idx, field(None, "char", "x1"))
        yield "W13 unnamed field without value (inserted)", _insert(unit, parent_path, idx, field(None, "char"))
        yield "W2 undefined type (inserted)", _insert(unit, parent_path, idx, field("zz11", "Missing", optional="true"))
        yield "W9 unbounded element in non-delimited array (inserted)", _insert(unit, parent_path, idx, array("zz12", "U", length="2", optional="true"))


def _switch_is_enum(unit, sw):
    for n in unit.walk():
        if n.tag == "field" and n.get("name") == sw.get("field"):
            return n.get("type", "").split(":")[0] in ("E1", "E2", "E3")
    return False


def _append_after_ref(parent, ln):
    for j, k in enumerate(parent.kids):
        if k.get("length") == ln.get("name"):
            parent.kids.insert(j + 1, array("zz13", "char", length=ln.get("name"), **({"optional": "true"} if (k.get("optional") or "").lower() == "true" else {})))
            return
    parent.kids.append(field("zz13", "string", length=ln.get("name")))
    parent.kids.append(field("zz14", "string", length=ln.get("name")))


def _move_length_back(parent, i):
    ln = parent.kids.pop(i)
    for j, k in enumerate(parent.kids):
        if k.get("length") == ln.get("name"):
            parent.kids.insert(j + 1, ln)
            return
    parent.kids.append(field("zz15", "string", length=ln.get("name")))
    parent.kids.append(ln)


def _site_paths(unit):
    out = []

    def walk(node, path, ctx):
        n = len(node.kids)
        positions = sorted({0, n // 2, n}) if n else [0]
        for p in positions:
            out.append((path, p, dict(ctx)))
        for i, k in enumerate(node.kids):
            if k.tag == "chunked":
                walk(k, path + (i,), dict(ctx, chunked=True))
            elif k.tag == "switch":
                for ci, c in enumerate(k.kids):
                    if c.tag == "case":
                        walk(c, path + (i, ci), dict(ctx, case=True))

    walk(unit, (), {"chunked": False, "case": False})
    return out


def _insert(unit, parent_path, idx, node):
    c = unit.copy()
    n = c
    for i in parent_path:
        n = n.kids[i]
    n.kids.insert(idx, node)
    return c


# ---------------------------------------------------------------- tree-level edits
def tree_edits(program):
    """Yield (label, files dict, raw overrides) - ill-formed by construction."""
    base = genpipe.tree_for([program])
    f = program.file
    name = program.name if program.kind == "struct" else None

    def with_extra(file, nodes, where="after"):
        t = {k: list(v) for k, v in base.items()}
        t.setdefault(file, [])
        t[file] = (nodes + t[file]) if where == "before" else (t[file] + nodes)
        return t

    if name:
        yield "W1 struct redefined in the same file", with_extra(f, [struct(name, [field("q", "char")])]), None
        for other in specs.FILES:
            if other != f:
                yield f"W1 struct redefined in {other}", with_extra(other, [struct(name, [field("q", "char")])]), None
        yield "W1 enum redefines a struct name", with_extra(f, [enum(name, "char", [("A", 1)])]), None
        yield "W2 struct contains itself", with_extra(f, [struct("Selfish", [field("me", "Selfish")])]), None
    for other in specs.FILES:
        yield f"W1 prelude struct P redefined in {other}", with_extra(other, [struct("P", [field("q", "char")])]), None
        yield f"W1 prelude enum E1 redefined as struct in {other}", with_extra(other, [struct("E1", [field("q", "char")])]), None
        yield f"W4 enum with non-integer value in {other}", with_extra(other, [enum("Bad1", "char", [("A", "x")]), struct("UseBad1", [field("b", "Bad1")])]), None
        yield f"W4 enum with duplicate ordinal in {other}", with_extra(other, [enum("Bad2", "char", [("A", 1), ("B", 1)]), struct("UseBad2", [field("b", "Bad2")])]), None
        yield f"W4 enum with a duplicate ordinal spelled differently in {other}", with_extra(other, [enum("Bad8", "char", [("A", "1"), ("B", "01")]), struct("UseBad8", [field("b", "Bad8")])]), None
        yield f"W4 enum with a duplicate ordinal spelled with zeros in {other}", with_extra(other, [enum("Bad9", "short", [("A", "0"), ("B", "7"), ("C", "007")]), struct("UseBad9", [field("b", "Bad9")])]), None
        yield f"W4 enum with duplicate value name in {other}", with_extra(other, [enum("Bad3", "char", [("A", 1), ("A", 2)]), struct("UseBad3", [field("b", "Bad3")])]), None
        yield f"W4 enum with string underlying type in {other}", with_extra(other, [enum("Bad4", "string", [("A", 1)]), struct("UseBad4", [field("b", "Bad4")])]), None
        yield f"W4 enum with itself as underlying type in {other}", with_extra(other, [enum("Bad5", "Bad5", [("A", 1)]), struct("UseBad5", [field("b", "Bad5")])]), None
        yield f"W4 enum with undefined underlying type in {other}", with_extra(other, [enum("Bad6", "Nope", [("A", 1)]), struct("UseBad6", [field("b", "Bad6")])]), None
        yield f"W17 enum value without name in {other}", with_extra(other, [N("enum", {"name": "Bad7", "type": "char"}, [N("value", {}, text="1")])]), None
        yield f"W17 struct without name in {other}", with_extra(other, [N("struct", {}, [field("q", "char")])]), None
        yield f"W17 root element is not <protocol> in {other}", base, {other: '<?xml version="1.0"?>\n<protocols></protocols>\n'}
    for pf in ("net/client", "net/server"):
        yield f"W16 unknown packet family in {pf}", with_extra(pf, [packet("Nope", "Act", [field("q", "char")])]), None
        yield f"W16 unknown packet action in {pf}", with_extra(pf, [packet("Last", "Nope", [field("q", "char")])]), None
        yield f"W16 action is a family name in {pf}", with_extra(pf, [packet("Last", "Last", [field("q", "char")])]), None
        yield f"W16 family is an action name in {pf}", with_extra(pf, [packet("Act", "Act", [field("q", "char")])]), None
        yield f"W16 action equals the family of an earlier packet in {pf}", with_extra(pf, [packet("Fam1", "Other", [field("q", "char")]), packet("Fam2", "Fam1", [field("r", "char")])]), None
        yield f"W16 family equals the action of an earlier packet in {pf}", with_extra(pf, [packet("Fam1", "Other", [field("q", "char")]), packet("Other", "Act", [field("r", "char")])]), None
        yield f"W16 duplicate packet in {pf}", with_extra(pf, [packet("Last", "Other", [field("q", "char")]), packet("Last", "Other", [field("r", "char")])]), None
        yield f"W17 packet without family in {pf}", with_extra(pf, [N("packet", {"action": "Act"}, [field("q", "char")])]), None
        yield f"W17 packet without action in {pf}", with_extra(pf, [N("packet", {"family": "Last"}, [field("q", "char")])]), None
    for pf in ("net", "pub", "map", "pub/server"):
        yield f"W16 packet outside net/client|server ({pf})", with_extra(pf, [packet("Last", "Other", [field("q", "char")])]), None


def reuse_pairs():
    """(label, valid tree, ill-formed tree, raw override) - the second tree edits a type the first tree DEFINES validly, so a
    generator object that remembers the first run's types is put to the test (regenerate-after-edit workflow)."""
    use = lambda t, n="Use": struct(n + t, [field("b", t)])  # noqa: E731
    for other in ("pub", "net", "map", "net/server"):
        good_enum = enum("R1", "char", [("A", 1), ("B", 2)])
        first = {other: [good_enum, use("R1")]}
        yield f"W4 existing enum value becomes non-integer in {other}", first, {other: [enum("R1", "char", [("A", 1), ("B", "two")]), use("R1")]}, None
        yield f"W4 existing enum gets a string underlying type in {other}", first, {other: [enum("R1", "string", [("A", 1), ("B", 2)]), use("R1")]}, None
        yield f"W4 existing enum gets a duplicate ordinal in {other}", first, {other: [enum("R1", "char", [("A", 1), ("B", 1)]), use("R1")]}, None
        yield f"W2 existing enum removed but still referenced in {other}", first, {other: [use("R1")]}, None
        good_struct = struct("R2", [field("q", "char")])
        first = {other: [good_struct, use("R2")]}
        yield f"W2 existing struct removed but still referenced in {other}", first, {other: [use("R2")]}, None
        yield f"W2 existing struct's field gets an undefined type in {other}", first, {other: [struct("R2", [field("q", "Nope")]), use("R2")]}, None
        yield f"W2 existing struct now contains itself in {other}", first, {other: [struct("R2", [field("q", "R2")]), use("R2")]}, None
        yield f"W5 existing struct gets a duplicate field in {other}", first, {other: [struct("R2", [field("q", "char"), field("q", "char")]), use("R2")]}, None
        yield f"W1 existing struct becomes an enum AND stays a struct in {other}", first, {other: [good_struct, enum("R2", "char", [("A", 1)]), use("R2")]}, None
    for pf in ("net/client", "net/server"):
        first = {pf: [packet("Last", "Other", [field("q", "char")])]}
        for victim, rule in (("PacketAction", "action"), ("PacketFamily", "family")):
            nodes = specs.prelude(2)
            for n in nodes:
                if n.tag == "enum" and n.get("name") == victim:
                    n.kids = [k for k in n.kids if k.get("name") not in ("Other", "Last")]
            yield f"W16 the packet's {rule} is removed from {victim} ({pf})", first, first, {"net": specs.protocol_xml(nodes)}


# ---------------------------------------------------------------- execution
def rejected(files, raw=None):
    d = loader.scratch_dir("c17")
    try:
        genpipe.write_tree(files, d + "/xml", n_families=2, raw=raw)
        return genpipe.run_generator(d + "/xml", d + "/out")
    finally:
        shutil.rmtree(d, ignore_errors=True)


def rejected_by_reused_generator(valid_files, files, raw=None):
    """The generator object that has just generated the valid tree is asked again after the tree was edited on disk:
    what it remembers from the first run must not let the ill-formed tree through.  -> True / False / None (n/a)"""
    d = loader.scratch_dir("c17r")
    try:
        genpipe.write_tree(valid_files, d + "/xml", n_families=2)

        def rewrite():
            shutil.rmtree(d + "/xml")
            genpipe.write_tree(files, d + "/xml", n_families=2, raw=raw)

        how, _ = genpipe.run_generator_twice(d + "/xml", d + "/out", rewrite)
        return None if how == "first-failed" else how == "raised"
    finally:
        shutil.rmtree(d, ignore_errors=True)


def _judge_reuse_pair(label, first, second, raw):
    if rejected(first) is not None:
        return None  # a generator that refuses this valid tree is C18's finding, not an ill-formed tree getting through
    if rejected(second, raw) is None:
        return f"'{label}': the ill-formed tree is accepted by the generator"
    if rejected_by_reused_generator(first, second, raw) is False:
        return f"'{label}': the ill-formed tree is accepted by a generator object that generated the valid tree just before (a fresh object rejects it)"
    return None


def program_tree(program, unit=None):
    p = program
    node = unit if unit is not None else p.node
    files = {p.file: list(p.extra) + [node]}
    return files


def _fix_packet(program):
    """Packets of this check use the reduced prelude (families Fam1, Fam2, Last)."""
    if program.kind == "packet":
        program.node.attrs["family"] = "Last"
        program.node.attrs["action"] = "Act"
    return program


_TIER = None
_UNI = None
_OPTPASS = bool(__import__("os").environ.get("VERIF_OPTPASS"))


def _shard(indices):
    loader.install_shims()
    counts = collections.Counter()
    violations, samples = [], []
    seen = set()

    def report(key, what, case):
        counts["violations_total"] += 1
        if len(violations) < 12 and not any(v["key"] == key for v in violations):
            violations.append({"key": key, "what": what, "case": case})

    for i in indices:
        p, info = e3.make_program(i, _UNI[i], 0)
        _fix_packet(p)
        env = p.env()
        if info.cls == "invalid":
            counts["grammar_invalid_bodies"] += 1
            counts["evaluations"] += 1
            if rejected(program_tree(p)) is None:
                report(f"accepted:{info.rule}:{info.ident}", f"{info.host} [{info.ident}] breaks {info.why} but the generator returned\n{p.node.xml()}",
                       {"tier": _TIER, "index": i, "edit": None})
            continue
        if info.cls != "valid":
            continue
        if not _wants_edits(info, i):
            continue
        counts["base_programs"] += 1
        for n_edit, (label, unit) in enumerate(unit_edits(p.node)):
            k = repr(unit.key())
            if k in seen:
                continue
            seen.add(k)
            cls, rule, why = wellformed.classify_unit(unit, env)
            if cls != "invalid":
                counts["edits_not_invalid_per_M9"] += 1
                continue
            counts["evaluations"] += 1
            counts["unit_edits"] += 1
            if rejected(program_tree(p, unit)) is None:
                report(f"accepted:{label}", f"{info.host} [{info.ident}] edited by '{label}' ({why}) is accepted by the generator\n{unit.xml()}",
                       {"tier": _TIER, "index": i, "edit": n_edit, "label": label})
            elif not _OPTPASS and ((info.ident.startswith("corpus:") and n_edit % 8 == 0) or i % 200 == 0):
                counts["evaluations"] += 1
                counts["reused_generator_runs"] += 1
                if rejected_by_reused_generator(program_tree(p), program_tree(p, unit)) is False:
                    report(f"accepted-on-reuse:{label}", f"{info.host} [{info.ident}] edited by '{label}' ({why}) is accepted by a generator object that generated the unedited tree just before\n{unit.xml()}",
                           {"tier": _TIER, "index": i, "edit": n_edit, "label": label, "reused": True})
            elif len(samples) < 1:
                samples.append({"base": info.ident, "edit": label, "edited": unit.xml()})
        if _wants_tree_edits(info, i):
            reuse_done = counts["tree_reuse_programs"] >= 1
            counts["tree_reuse_programs"] += 1
            for n_edit, (label, files, raw) in enumerate(tree_edits(p)):
                counts["evaluations"] += 1
                counts["tree_edits"] += 1
                if rejected(files, raw) is None:
                    report(f"accepted:{label}", f"{info.host} [{info.ident}] with tree edit '{label}' is accepted by the generator",
                           {"tier": _TIER, "index": i, "tree_edit": n_edit, "label": label})
                    continue
                if reuse_done:
                    continue  # tree edits do not depend on the body: one program per shard takes them through a reused object
                counts["evaluations"] += 1
                counts["reused_generator_runs"] += 1
                if rejected_by_reused_generator(program_tree(p), files, raw) is False:
                    report(f"accepted-on-reuse:{label}", f"{info.host} [{info.ident}] with tree edit '{label}' is accepted by a generator object that generated the valid tree just before (a fresh object rejects it)",
                           {"tier": _TIER, "index": i, "tree_edit": n_edit, "label": label, "reused": True})
    return counts, violations, samples


def _wants_edits(info, i):
    """quick: corpus, every body of cost <= 1 (all hosts) and every tenth other program; thorough: all."""
    if _TIER != "quick":
        return True
    if _OPTPASS:
        # the -OO repetition of the quick tier (mc/cli.py) edits the corpus and every 40th program only
        return info.ident.startswith("corpus:") or i % 40 == 0
    return info.ident.startswith("corpus:") or info.ident.count(";") == 0 or i % 10 == 0


def _wants_tree_edits(info, i):
    # tree-level edits do not depend on the body: apply them to corpus programs and to every 40th program
    return info.ident.startswith("corpus:") or i % (120 if _TIER == "quick" else 40) == 0


def run(tier, seed):
    global _TIER, _UNI
    loader.install_shims()
    _TIER, _UNI = tier, e3.universe(tier)
    idx = list(range(len(_UNI)))
    n = par.WORKERS * 4
    res = par.pmap(_shard, [idx[k::n] for k in range(n)])
    counts = collections.Counter()
    violations, samples = [], []
    for c, v, s in res:
        counts.update(c)
        violations += v
        samples += s
    for n_pair, (label, first, second, raw) in enumerate(reuse_pairs()):
        counts["evaluations"] += 2
        counts["reuse_pairs"] += 1
        what = _judge_reuse_pair(label, first, second, raw)
        if what:
            counts["violations_total"] += 1
            violations.append({"key": f"reuse-pair:{label}", "what": what, "case": {"tier": tier, "index": 0, "reuse_pair": n_pair}})
    seen, out = set(), []
    for v in violations:
        if v["key"] not in seen:
            seen.add(v["key"])
            out.append(v)
    coverage = {
        "evaluations": counts["evaluations"],
        "distinct_nontrivial": counts["evaluations"],
        "grammar_invalid_bodies": counts["grammar_invalid_bodies"],
        "base_programs_edited": counts["base_programs"],
        "unit_edits_judged": counts["unit_edits"],
        "tree_edits_judged": counts["tree_edits"],
        "reused_generator_runs": counts["reused_generator_runs"],
        "reuse_pairs": counts["reuse_pairs"],
        "edits_not_invalid_per_M9": counts["edits_not_invalid_per_M9"],
        "violations_total": counts["violations_total"],
        "exhaustive": True,
        "rule": "(i) every body of the tier grammar that M9 classifies invalid; (ii) for every valid program every unit-level edit "
        "of the catalogue at every node / insertion site (deduplicated by edited XML), judged when M9 classifies the edited "
        "unit invalid; tree-level edits on corpus programs and every 120th (quick) / 40th (thorough) program; each generator run on a distinct "
        "ill-formed tree is one case; the tree edits of one program per shard (and every 8th unit edit of corpus programs, all unit edits of every 200th program) are also put to a generator OBJECT that has just generated the unedited tree (generate -> edit the files -> generate again); plus reuse pairs: 40 (valid tree, ill-formed tree) pairs in which the second tree breaks a type the first one defines validly (enum value / underlying type / ordinal, removed or self-containing struct, packet family / action removed from its enum), put to a fresh and to a reused generator object",
        "samples": samples[:3],
    }
    return {"coverage": coverage, "violations": out}


def replay(case):
    global _TIER, _UNI
    loader.install_shims()
    _TIER, _UNI = case["tier"], e3.universe(case["tier"])
    i = int(case["index"])
    p, info = e3.make_program(i, _UNI[i], 0)
    _fix_packet(p)
    if case.get("reuse_pair") is not None:
        for n_pair, (label, first, second, raw) in enumerate(reuse_pairs()):
            if n_pair == int(case["reuse_pair"]):
                return _judge_reuse_pair(label, first, second, raw)
        return None
    if case.get("edit") is None and case.get("tree_edit") is None:
        if info.cls == "invalid" and rejected(program_tree(p)) is None:
            return f"[{info.ident}] breaks {info.why} but the generator returned\n{p.node.xml()}"
        return None
    if case.get("tree_edit") is not None:
        for n_edit, (label, files, raw) in enumerate(tree_edits(p)):
            if n_edit == int(case["tree_edit"]):
                if case.get("reused"):
                    ok = rejected_by_reused_generator(program_tree(p), files, raw)
                    return f"tree edit '{label}' on [{info.ident}] is accepted by a generator object that generated the valid tree just before" if ok is False else None
                return f"tree edit '{label}' on [{info.ident}] is accepted by the generator" if rejected(files, raw) is None else None
        return None
    for n_edit, (label, unit) in enumerate(unit_edits(p.node)):
        if n_edit == int(case["edit"]):
            if case.get("reused"):
                ok = rejected_by_reused_generator(program_tree(p), program_tree(p, unit))
                return f"[{info.ident}] edited by '{label}' is accepted by a generator object that generated the unedited tree just before\n{unit.xml()}" if ok is False else None
            if wellformed.classify_unit(unit, p.env())[0] == "invalid" and rejected(program_tree(p, unit)) is None:
                return f"[{info.ident}] edited by '{label}' is accepted by the generator\n{unit.xml()}"
            return None
    return None
