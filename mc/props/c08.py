"""C08 - EO string encoding is length-preserving, self-inverse and break-safe (E4)."""

import itertools

from .. import loader, par
from ..refmodels import dec_string, enc_string

ID = "C08"
LEVEL = "exploration"
ASSUMPTIONS = [
    "reference M2: per-byte reflection 0x9F-c (+/-0x2E on alternating positions, sign chosen at 0x50) on 0x22..0x7E; "
    "encode = invert then reverse, decode = reverse then invert",
    "long strings are covered only through the (byte value x position x length <= max_len) table; nothing is sampled",
]

ALPHA = (0x00, 0x21, 0x22, 0x4F, 0x50, 0x7D, 0x7E, 0x7F, 0xFF)
FILLERS = (0x41, 0x7A, 0x00)


def _guard(fn):
    """A call into the code under test that raises is an observation, not a harness failure: the buffer is replaced by a
    marker no oracle accepts and the exception text is returned (the functions are documented to return None)."""

    def call(buf):
        try:
            return fn(buf)
        except Exception as e:  # noqa: BLE001
            try:
                buf[:] = b"\x00RAISED\x00"
            except Exception:  # noqa: BLE001
                pass
            return f"raised {type(e).__name__}: {e}"

    return call


def _fns():
    m = loader.lib("eolib.data.string_encoding_utils")
    return _guard(m.encode_string), _guard(m.decode_string)


def check_one(s):
    """All oracle clauses for one byte string. -> description or None"""
    encode, decode = _fns()
    s = bytes(s)
    e = bytearray(s)
    r = encode(e)
    if r is not None:
        return f"encode_string returned {r!r} instead of mutating in place"
    d = bytearray(s)
    r = decode(d)
    if r is not None:
        return f"decode_string returned {r!r} instead of mutating in place"
    if bytes(e) != enc_string(s):
        return f"encode_string({s.hex()}) = {bytes(e).hex()}, format prescribes {enc_string(s).hex()}"
    if bytes(d) != dec_string(s):
        return f"decode_string({s.hex()}) = {bytes(d).hex()}, format prescribes {dec_string(s).hex()}"
    for name, out in (("encode", e), ("decode", d)):
        if len(out) != len(s):
            return f"{name} changed the length of {s.hex()}"
        if out.count(0) != s.count(0) or out.count(0xFF) != s.count(0xFF):
            return f"{name}({s.hex()}) = {bytes(out).hex()} created or destroyed a 0x00/0xFF byte"
        for j, c in enumerate(out):
            src = s[len(s) - 1 - j]
            if not 0x22 <= src <= 0x7E:
                if c != src:
                    return f"{name}({s.hex()}) altered byte {src:#x} outside 0x22..0x7E"
            elif not 0x21 <= c <= 0x7D:
                return f"{name}({s.hex()}) mapped {src:#x} to {c:#x}, outside 0x21..0x7D"
    ed = bytearray(e)
    decode(ed)
    de = bytearray(d)
    encode(de)
    for name, out in (("decode(encode(s))", ed), ("encode(decode(s))", de)):
        if len(out) != len(s):
            return f"{name} changed the length of {s.hex()}"
        for i, c in enumerate(s):
            if c != 0x7E and out[i] != c:
                return f"{name} differs from s={s.hex()} at index {i}: {out[i]:#x}"
    return None


SEQ = (b"", b"A", b"~", b"PQ", b"abc", b"\xff\x00", b"Hello", b"}P}P", b"\x22\x7e\x50\x4f\x21", b"abcdef", b"z" * 7)


def check_seq(seq):
    """Several strings in a row through the full oracle: the codec must not remember earlier calls."""
    for i, s in enumerate(seq):
        w = check_one(bytes(s))
        if w:
            return f"in sequence {[bytes(x).hex() for x in seq]} at #{i}: {w}"
    return None


def check_reuse(s, steps):
    """Two caller-owned buffers A and B, both starting as s, passed again and again to encode/decode (a buffer that has
    been through the codec is simply handed back to it): each call must transform exactly the buffer it was given,
    according to that buffer's current content, whatever happened to the other one.  steps: [(0|1, 'e'|'d'), ...]"""
    encode, decode = _fns()
    real = [bytearray(s), bytearray(s)]
    model = [bytes(s), bytes(s)]
    for i, (which, op) in enumerate(steps):
        which = int(which)
        (encode if op == "e" else decode)(real[which])
        model[which] = (enc_string if op == "e" else dec_string)(model[which])
        for j in (0, 1):
            if bytes(real[j]) != model[j]:
                return f"buffers A=B={bytes(s).hex()}, steps {[(int(w), o) for w, o in steps]}: after step {i} buffer {'AB'[j]} holds {bytes(real[j]).hex()}, expected {model[j].hex()}"
    return None


def _reuse_shard(strings):
    loader.install_shims()
    atoms = [(w, o) for w in (0, 1) for o in ("e", "d")]
    count, bad = 0, []
    for s_ in strings:
        for d in range(1, 5):
            for steps in itertools.product(atoms, repeat=d):
                count += 1
                # content no earlier history of this process has used (a content-keyed memo would otherwise be settled
                # by whichever history touched the string first)
                tag = bytes((0x30 + count % 64, 0x30 + (count // 64) % 64))
                for content in (bytes(s_), bytes(s_) + tag, tag + bytes(s_) + b"!"):
                    w = check_reuse(content, steps)
                    if w and len(bad) < 3:
                        bad.append(({"reuse": [list(x) for x in steps], "s": content}, w))
    return count, bad


def _seq_shard(firsts):
    loader.install_shims()
    count, bad = 0, []
    for a in firsts:
        for rest in itertools.product(SEQ, repeat=2):
            count += 1
            w = check_seq([a] + list(rest))
            if w and len(bad) < 3:
                bad.append(([a] + list(rest), w))
    return count, bad


def _table_shard(shard):
    lengths, fillers = shard
    loader.install_shims()
    count, bad = 0, []
    for L in lengths:
        for pos in range(L):
            for fill in fillers:
                base = bytearray([fill]) * L
                for v in range(256):
                    base[pos] = v
                    count += 1
                    what = check_one(base)
                    if what and len(bad) < 5:
                        bad.append((bytes(base), what))
    return count, bad


def _strings_shard(shard):
    prefixes, maxlen = shard
    loader.install_shims()
    count, bad = 0, []
    for p in prefixes:
        for L in range(0, maxlen - len(p) + 1):
            for t in itertools.product(ALPHA, repeat=L):
                s = bytes(p) + bytes(t)
                count += 1
                what = check_one(s)
                if what and len(bad) < 5:
                    bad.append((s, what))
    return count, bad


def run(tier, seed):
    loader.install_shims()
    max_table_len = 17 if tier == "quick" else 40
    maxlen = 5 if tier == "quick" else 7
    W = par.WORKERS
    res = par.pmap(_table_shard, [([L], FILLERS) for L in range(1, max_table_len + 1)])
    n_table = sum(r[0] for r in res)
    bads = [b for r in res for b in r[1]]
    prefixes = [bytes(t) for t in itertools.product(ALPHA, repeat=2)]
    res2 = par.pmap(_strings_shard, [(c, maxlen) for c in par.chunks(prefixes, W * 2)])
    n_str = sum(r[0] for r in res2) + 1 + len(ALPHA)  # + empty + length-1 strings below
    bads += [b for r in res2 for b in r[1]]
    long_strings = []
    for L in (63, 64, 65, 127, 128, 255, 256, 257, 1000, 1001):
        long_strings += [bytes(i % 256 for i in range(L)), bytes((0x7E - i) % 256 for i in range(L)), bytes([0x50, 0x4F] * (L // 2) + [0x7D] * (L % 2)), b"\x7e" * L]
    n_str += len(long_strings)
    for s in [b""] + [bytes((a,)) for a in ALPHA] + long_strings:
        what = check_one(s)
        if what:
            bads.append((s, what))
    res3 = par.pmap(_seq_shard, [[a] for a in SEQ])
    n_seq = sum(r[0] for r in res3)
    res4 = par.pmap(_reuse_shard, [[a] for a in SEQ])
    n_reuse = sum(r[0] for r in res4)
    n_seq += n_reuse
    violations = []
    for r in res4:
        for case, what in r[1]:
            violations.append({"key": "string-codec:buffer-reuse", "what": what, "case": case})
    for r in res3:
        for seq, what in r[1]:
            violations.append({"key": "string-codec:sequence", "what": what, "case": {"seq": seq}})
    for s, what in bads:
        kind = what.split("(")[0].split(" ")[0]
        violations.append({"key": f"string-codec:{kind}:len{len(s) % 2}", "what": what, "case": {"s": s}})
    encode, _ = _fns()
    samples = []
    for s in (b"Hello", b"\x7e!", b"\xffA\x00z", b"PONM"):
        e = bytearray(s)
        encode(e)
        samples.append({"s": s.hex(), "encoded": bytes(e).hex()})
    coverage = {
        "evaluations": n_table + n_str + n_seq,
        "distinct_nontrivial": n_table + n_str + n_seq - 1,
        "call_sequences": n_seq,
        "buffer_reuse_histories": n_reuse,
        "byte_position_table_cases": n_table,
        "max_table_len": max_table_len,
        "short_strings": n_str,
        "short_string_alphabet": [hex(a) for a in ALPHA],
        "short_string_max_len": maxlen,
        "exhaustive": True,
        "rule": (
            "table: every (length 1..max_table_len, position, byte value 0..255) with the other positions filled by "
            "each of 3 fillers - covers byte value x position parity x length parity completely; short strings: every "
            "string over the 9-symbol boundary alphabet up to short_string_max_len; each case checks encode and decode "
            "against M2 byte-exactly, both round trips (except 0x7E), length, 0x00/0xFF counts, range mapping, in-place "
            "mutation; call_sequences: every ordered triple of 11 strings of mixed lengths through the same oracle (hidden-state detection); buffer_reuse_histories: two caller-owned buffers with the same initial content handed back to encode/decode in every order of up to 4 calls, each compared with the composition the reference gives.  Non-trivial = every case but the empty string."
        ),
        "samples": samples,
    }
    from .. import kwforms

    for w in kwforms.check("string"):
        violations.append({"key": "keyword-form:" + w.split(":")[0][:60], "what": w, "case": {"kwforms": True}})
    coverage["keyword_call_forms_checked"] = True
    return {"coverage": coverage, "violations": violations}


def replay(case):
    if isinstance(case, dict) and case.get("kwforms"):
        from .. import kwforms

        bad = kwforms.check("string")
        return bad[0] if bad else None
    loader.install_shims()
    if "reuse" in case:
        return check_reuse(bytes(case["s"]), [tuple(x) for x in case["reuse"]])
    if "seq" in case:
        return check_seq([bytes(x) for x in case["seq"]])
    return check_one(bytes(case["s"]))
