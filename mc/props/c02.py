"""C02 - generated serializers emit exactly the wire format the XML prescribes.

E3: every valid body of the tier's grammar (+ corpus), in its hosts, x the full value domain
(unencodable / 0xFF characters and unrecognized ordinals included) x both entry sanitisation modes:
bytes written by the generated serializer == bytes of the reference semantics M10.  Packets also
report their declared family/action and write() == serialize().  A second pass generates every
program with its boolean attributes spelled out explicitly (default values) and demands identical
behaviour.
"""

from .. import e3, loader, refsem, specs, values
from ..specs import instructions

ID = "C02"
LEVEL = "exploration"
ASSUMPTIONS = [
    "reference semantics M10 (DESIGN Appendix C) is our reading of the eo-protocol rules; it never runs generated code",
    "only specs M9 classifies as valid and non-degenerate; objects for which the format assigns no bytes are skipped",
    "exhaustive within the stated grammar and value bound",
]


def writer_cls():
    return loader.lib("eolib.data.eo_writer").EoWriter


def real_serialize(cls, obj, entry, via_write=False):
    w = writer_cls()()
    w.string_sanitization_mode = entry
    try:
        if via_write:
            obj.write(w)
        else:
            cls.serialize(w, obj)
    except Exception as e:  # noqa: BLE001
        return ("exc", type(e).__name__, str(e)[:80])
    return ("bytes", bytes(w.to_bytearray()), bool(w.string_sanitization_mode))


def ref_serialize(env, unit, val, entry):
    try:
        return ("bytes", refsem.serialize(env, unit, val, sanitize=entry))
    except refsem.SerError:
        return ("sererror",)
    except ValueError:
        return ("valueerror",)
    except refsem.Unspecified:
        return ("unspecified",)


class Judge:
    def wants(self, info):
        return info.cls == "valid"

    def judge(self, ctx, ld, info):
        p = ld.program
        if ld.cls is None:
            # C18 owns "generation succeeds and imports"; here the program simply cannot be exercised
            ctx.counts["not_loadable"] += 1
            return
        env = p.env()
        ad = e3.adaptor_for(p)
        cap = 256 if ctx.tier == "quick" else 1024
        nvals = 0
        first = []

        def all_values():
            for val in values.enumerate_values(p.node, env, cap=cap):
                if not first:
                    first.append(val)
                yield val
            for base in first[:1]:
                for _label, val in values.boundary_values(p.node, env, base, short_too=info.ident.startswith("corpus:")):
                    ctx.counts["length_boundary_values"] += 1
                    yield val

        for val in all_values():
            try:
                obj = ad.build(ld.cls, p.node, val)
            except Exception:  # noqa: BLE001 - not constructible: outside C02's quantifier (C01 judges it)
                ctx.counts["not_constructible"] += 1
                continue
            nvals += 1
            for entry in (False, True):
                exp = ref_serialize(env, p.node, val, entry)
                if exp[0] != "bytes":
                    ctx.counts["skipped_" + exp[0]] += 1
                    continue
                got = real_serialize(ld.cls, obj, entry)
                ctx.counts["evaluations"] += 1
                if got[0] != "bytes" or got[1] != exp[1]:
                    shown = got[1].hex() if got[0] == "bytes" else f"{got[1]}: {got[2]}"
                    ctx.violation(
                        f"bytes:{info.ident}",
                        f"{info.host} [{info.ident}] value {val!r} entry sanitisation {entry}: serialized {shown}, format prescribes {exp[1].hex()}",
                        {"tier": ctx.tier, "index": info.index, "value": _enc(val), "entry": entry, "kind": "bytes"},
                    )
                    return
                ctx.counts["distinct_outputs"] += 0
            if p.kind == "packet" and nvals == 1:
                self.packet_clauses(ctx, ld, info, obj, val)
        ctx.counts["values"] += nvals
        if nvals and len(ctx.samples) < 2:
            ctx.sample({"program": info.ident, "host": info.host, "xml": p.node.xml(), "values": nvals})

    def packet_clauses(self, ctx, ld, info, obj, val):
        fam_cls = loader.gen("eolib.protocol._generated.net.packet_family").PacketFamily
        act_cls = loader.gen("eolib.protocol._generated.net.packet_action").PacketAction
        fam = ld.program.node.get("family")
        act = ld.program.node.get("action")
        try:
            ok = (ld.cls.family() is getattr(fam_cls, fam) and ld.cls.action() is getattr(act_cls, act)
                  and obj.family() is getattr(fam_cls, fam) and obj.action() is getattr(act_cls, act))
            a = real_serialize(ld.cls, obj, False)
            b = real_serialize(ld.cls, obj, False, via_write=True)
        except Exception as e:  # noqa: BLE001
            ok, a, b = False, ("exc", type(e).__name__), None
        ctx.counts["evaluations"] += 1
        if not ok or a != b:
            ctx.violation(
                f"packet-identity:{info.ident}",
                f"{info.host} [{info.ident}]: family()/action()/write() do not match the declaration (family {fam}, action {act}): {a} vs {b}",
                {"tier": ctx.tier, "index": info.index, "value": _enc(val), "entry": False, "kind": "packet"},
            )


def _enc(v):
    """Value tree -> JSON-able (tuples become lists; bytes are wrapped by the evidence writer)."""
    if isinstance(v, dict):
        return {k: _enc(x) for k, x in v.items()}
    if isinstance(v, tuple):
        return {"__tuple__": [_enc(x) for x in v]}
    return v


def _dec(v):
    if isinstance(v, dict):
        if set(v) == {"__tuple__"}:
            return tuple(_dec(x) for x in v["__tuple__"])
        return {k: _dec(x) for k, x in v.items()}
    if isinstance(v, list):
        return tuple(_dec(x) for x in v)
    return v


def run(tier, seed):
    counts, violations, samples = e3.run(tier, seed, Judge())
    from . import c02_spelling

    sp_counts, sp_viol, sp_samples = c02_spelling.run(tier, seed)
    counts.update(sp_counts)
    violations += sp_viol
    coverage = {
        "evaluations": counts["evaluations"],
        "distinct_nontrivial": counts["values"],
        "programs": counts["programs"],
        "values": counts["values"],
        "not_constructible": counts["not_constructible"],
        "not_loadable": counts["not_loadable"],
        "length_boundary_values": counts["length_boundary_values"],
        "skipped_no_prescribed_bytes": counts["skipped_sererror"] + counts["skipped_valueerror"] + counts["skipped_unspecified"],
        "spelling_programs": counts["spelling_programs"],
        "spelling_comparisons": counts["spelling_comparisons"],
        "violations_total": counts["violations_total"],
        "exhaustive": True,
        "rule": "programs = every M9-valid body of the tier grammar (G(2) u G_red(3) quick; + G(3), G_red(4) thorough) in its "
        "hosts + corpus, generated by the real generator; for each, every value of the section-5.2 domain product (cut to "
        "extremes above the cap) x both entry sanitisation modes; serialized bytes compared with M10; distinct_nontrivial = "
        "distinct (program, value) pairs constructed; spelling pass: every program regenerated with boolean attributes "
        "spelled explicitly and compared behaviourally",
        "samples": samples[:3] + sp_samples[:1],
    }
    return {"coverage": coverage, "violations": violations}


def _replay_single(case):
    loader.install_shims()
    if case.get("kind") == "spelling":
        from . import c02_spelling

        return c02_spelling.replay(case)
    ld, info = e3.replay_program(case["tier"], int(case["index"]))
    if ld.cls is None:
        return None
    p = ld.program
    val = _dec(case["value"])
    ad = e3.adaptor_for(p)
    obj = ad.build(ld.cls, p.node, val)
    if case.get("kind") == "packet":
        ctx = e3.Ctx(case["tier"], 0)
        Judge().packet_clauses(ctx, ld, info, obj, val)
        return ctx.violations[0]["what"] if ctx.violations else None
    entry = bool(case["entry"])
    exp = ref_serialize(p.env(), p.node, val, entry)
    got = real_serialize(ld.cls, obj, entry)
    if exp[0] == "bytes" and (got[0] != "bytes" or got[1] != exp[1]):
        shown = got[1].hex() if got[0] == "bytes" else f"{got[1]}: {got[2]}"
        return f"[{info.ident}] value {val!r}: serialized {shown}, format prescribes {exp[1].hex()}\n{p.node.xml()}"
    return None


def replay(case):
    what = _replay_single(case)
    if what:
        return what
    if case.get("kind") in ("spelling",):
        return None
    what = e3.replay_whole(case["tier"], int(case["index"]), Judge())
    if what or not case.get("shard"):
        return what
    return e3.replay_shard(case["tier"], case["shard"], Judge())
