"""C04 - EoWriter output read back by EoReader returns the values written.

E1 over write-histories x the matching read-histories (depth-bounded): every sequence of <= 3/4
typed writes from the menu, then the corresponding get_* sequence on a fresh reader over the output.
The oracle is the property's own (values written, cp1252 image of strings, exact consumption); it
does not depend on a byte-level reference.
"""

import collections
import itertools

from .. import loader, par
from ..refmodels import P1, P2, P3, P4

ID = "C04"
LEVEL = "model_checking"
ASSUMPTIONS = [
    "excluded exactly as the statement excludes: 0xFF (y-diaeresis) inside padded strings, '~' inside encoded strings",
    "trailing (unbounded) strings only as the last write; sanitisation off",
    "depth-bounded histories over the stated menu",
]

INTS = {
    "add_char": (0, 1, 252),
    "add_short": (0, 252, 253, P2 - 1),
    "add_three": (0, 253, P2 - 1, P2, P3 - 1),
    "add_int": (0, 253, P2, P3 - 1, P3, P4 - 1),
}
STRS = ("a", "ab", "€", "Ā", "\x81", "\U0001F600", "\x00", "ÿ", "~", "aÿ~", "P}", "O\"!", "SHOP")
GETTER = {
    "add_byte": "get_byte", "add_char": "get_char", "add_short": "get_short", "add_three": "get_three", "add_int": "get_int",
    "add_fixed_string": "get_fixed_string", "add_fixed_encoded_string": "get_fixed_encoded_string",
    "add_string": "get_string", "add_encoded_string": "get_encoded_string",
}


def img(s):
    return s.encode("cp1252", "replace").decode("cp1252")


def menus():
    mid = [("add_byte", v) for v in (0, 0xFE, 0xFF)]
    mid += [("add_bytes", b""), ("add_bytes", b"\x00\xff")]
    for m, vals in INTS.items():
        mid += [(m, v) for v in vals]
    for s in ("",) + STRS:
        L = len(s)
        for width in sorted({L, L + 1, L + 2}):
            for padded in (0, 1):
                if not padded and width != L:
                    continue
                if padded and "ÿ" in s:
                    continue
                mid.append(("add_fixed_string", s, width, padded))
                if "~" not in s:
                    mid.append(("add_fixed_encoded_string", s, width, padded))
    last = []
    for s in ("",) + STRS:
        last.append(("add_string", s))
        if "~" not in s:
            last.append(("add_encoded_string", s))
    return mid, last


def _write(w, op):
    name = op[0]
    if name == "add_bytes":
        w.add_bytes(bytes(op[1]))
    elif name in ("add_fixed_string", "add_fixed_encoded_string"):
        getattr(w, name)(op[1], op[2], bool(op[3]))
    else:
        getattr(w, name)(op[1])


def _read_back(R, data, hist):
    r = R(data)
    for i, op in enumerate(hist):
        name = op[0]
        if name == "add_bytes":
            got, exp = bytes(r.get_bytes(len(op[1]))), bytes(op[1])
        elif name in ("add_fixed_string", "add_fixed_encoded_string"):
            got, exp = getattr(r, GETTER[name])(op[2], bool(op[3])), img(op[1])
        elif name in ("add_string", "add_encoded_string"):
            got, exp = getattr(r, GETTER[name])(), img(op[1])
        else:
            got, exp = getattr(r, GETTER[name])(), op[1]
        if got != exp or type(got) is not type(exp):
            return f"read #{i} ({GETTER.get(name, 'get_bytes')}) returned {got!r}, written {exp!r} (output {bytes(data).hex()})"
    if r.remaining != 0 or r.position != len(data):
        return f"after reading everything remaining={r.remaining} position={r.position} len={len(data)}"
    return None


def run_history(hist):
    """-> description of the first disagreement, or None.  The output is also taken after EVERY write (and a reader over
    it kept alive) while the writer keeps being used: an output taken earlier must still read back what had been
    written up to that point."""
    W = loader.lib("eolib.data.eo_writer").EoWriter
    R = loader.lib("eolib.data.eo_reader").EoReader
    w = W()
    taken = []
    try:
        for i, op in enumerate(hist):
            _write(w, op)
            if i + 1 < len(hist) and i < 2:
                out = w.to_bytearray()
                taken.append((i + 1, out, R(out)))
        data = bytes(w.to_bytearray())
    except Exception as e:  # noqa: BLE001
        return f"write side raised {type(e).__name__}: {e}"
    try:
        what = _read_back(R, data, hist)
        if what:
            return what
        for n, out, _alive in taken:
            what = _read_back(R, out, hist[:n])
            if what:
                return f"the output taken after {n} write(s) no longer reads back those writes once the writer was used further: {what}"
    except Exception as e:  # noqa: BLE001
        return f"read side raised {type(e).__name__}: {e}"
    return None


_RECENT = collections.deque(maxlen=64)  # survives across jobs of one pool worker


def _shard(shard):
    firsts, depth = shard
    firsts = [_fix(o) for o in firsts]
    loader.install_shims()
    mid, last = menus()
    count, bad, prev = 0, [], collections.deque(maxlen=64)
    for first in firsts:
        for d in range(0, depth):
            for rest in itertools.product(mid, repeat=d):
                base = [first] + list(rest)
                for tail in [None] + (last if len(base) < depth else []):
                    hist = base + ([tail] if tail else [])
                    count += 1
                    what = run_history(hist)
                    if what and len(bad) < 3:
                        bad.append(_localise(prev, hist, what, shard))
                    prev.append(hist)
    return count, bad


def _char_shard(job):
    """Every string of the character alphabet (mc/charsweep.py) written through every string method the statement
    admits for it and read back: it must come back as its cp1252 image and nothing else may change."""
    from .. import charsweep

    loader.install_shims()
    count, bad = 0, []
    for s in charsweep.strings(job):
        n = len(s)
        im = img(s)
        hist = [("add_char", 7), ("add_fixed_string", s, n, 0)]
        if "ÿ" not in im:
            hist.append(("add_fixed_string", s, n + 1, 1))
        if "~" not in im:
            hist.append(("add_fixed_encoded_string", s, n, 0))
            if "ÿ" not in im:
                hist.append(("add_fixed_encoded_string", s, n + 2, 1))
        for tail in (("add_string", s),) + ((("add_encoded_string", s),) if "~" not in im else ()):
            count += 1
            what = run_history(hist + [tail])
            if what and len(bad) < 3:
                bad.append(({"history": hist + [tail]}, what, []))
    return count, bad


def _fix(op):
    return tuple(bytes(x) if isinstance(x, (bytes, bytearray)) else x for x in op)


def _localise(prev, hist, what, shard):
    prev = list(prev)
    alts = [{"warmup": prev[-k:], "history": hist} for k in (1, 8, 64) if prev]
    alts.append({"job": {"firsts": [list(o) for o in shard[0]], "depth": shard[1]}, "history": hist})
    return {"history": hist}, what, alts


def ladder_histories():
    out = []
    for L in (8, 16, 24, 32, 64, 255, 256, 300, 1025, 65537):
        for s in ("x" * L, "€" * L, "a" * (L - 1) + "Ā"):
            out.append([("add_short", 253), ("add_fixed_string", s, L, 0), ("add_char", 1), ("add_string", s)])
            out.append([("add_fixed_string", s, L + 2, 1), ("add_fixed_encoded_string", s, L, 0), ("add_int", 253), ("add_encoded_string", s)])
            out.append([("add_fixed_encoded_string", s, L + 1, 1), ("add_bytes", b"\x00\xff"), ("add_fixed_string", s, L, 1)])
        # the amount of padding climbs the same ladder: short strings in wide padded fields, values after them
        for s in ("", "ab", "€uro"):
            out.append([("add_char", 7), ("add_fixed_string", s, L, 1), ("add_char", 1), ("add_fixed_encoded_string", s, L + 1, 1), ("add_short", 300)])
            out.append([("add_fixed_encoded_string", s, L + len(s), 1), ("add_three", 64009), ("add_fixed_string", s, L + len(s), 1), ("add_string", s)])
    return out


def run(tier, seed):
    loader.install_shims()
    mid, last = menus()
    depth = 3 if tier == "quick" else 4
    res = par.pmap(_shard, [(c, depth) for c in par.chunks(mid, par.WORKERS * 4)])
    count = sum(r[0] for r in res) + len(last) + 1 + len(ladder_histories())
    bads = [b for r in res for b in r[1]]
    for hist in [[]] + [[t] for t in last] + ladder_histories():
        what = run_history(hist)
        if what:
            bads.append(({"history": hist}, what, []))
    from .. import charsweep

    res_chars = par.pmap(_char_shard, charsweep.jobs(tier))
    char_n = sum(r[0] for r in res_chars)
    count += char_n
    bads += [b for r in res_chars for b in r[1]]
    violations = []
    for case, what, alts in bads:
        hist = case["history"]
        names = "+".join(o[0] for o in hist[-2:])
        violations.append({"key": f"roundtrip:{names}:{what.split(' returned')[0][:40]}", "what": f"writes {hist}: {what}", "case": case, "alt_cases": alts})
    coverage = {
        "states": count,
        "transitions": count * 2,
        "traces_validated_against_impl": count,
        "evaluations": count,
        "distinct_nontrivial": count - 1,
        "character_sweep_histories": char_n,
        "character_sweep_strings": charsweep.total(),
        "menu_ops": len(mid),
        "trailing_ops": len(last),
        "max_writes": depth,
        "exhaustive": True,
        "rule": "every sequence of up to max_writes typed writes from the menu (raw bytes, EO ints at 0 / each digit boundary / "
        "limit-1, fixed/padded/encoded strings over 11 strings incl. unencodable characters at every legal width, a trailing "
        "string only in last position; plus the character sweep: every Unicode code point U+0000..U+10FFFF as a one-character string and every (windows-1252 character, combining mark) pair through every string method the statement admits for it), each followed by the matching get_* sequence on EoReader(writer output); a state is a "
        "distinct write history (its output bytes), transitions are its writes + reads; non-trivial = all but the empty history",
        "samples": [{"writes": [["add_short", 253], ["add_fixed_encoded_string", "€", 3, 1], ["add_string", "Ā"]]}],
    }
    from .. import kwforms

    for w in kwforms.check("writer"):
        violations.append({"key": "keyword-form:" + w.split(":")[0][:60], "what": w, "case": {"kwforms": True}})
    coverage["keyword_call_forms_checked"] = True
    return {"coverage": coverage, "violations": violations}


def replay(case):
    if isinstance(case, dict) and case.get("kwforms"):
        from .. import kwforms

        bad = kwforms.check("writer")
        return bad[0] if bad else None
    loader.install_shims()
    if case.get("job"):
        _, bads = _shard(([_fix(o) for o in case["job"]["firsts"]], int(case["job"]["depth"])))
        return bads[0][1] + " (found while re-running its shard)" if bads else None
    for h in case.get("warmup", []):
        run_history([tuple(o) for o in h])
    return run_history([tuple(o) for o in case["history"]])
