"""C07 - EO number codec is a wire-safe bijection on its whole range (E4 exhaustive sweeps).

quick:    every n in [0, 253^3) (complete), boundary sets + a VERIF_SEED-rotated contiguous window
          in the 4-byte range; every byte string of length 0..3 and a reduced-alphabet length-4 set.
thorough: all 4,097,152,081 integers, same decode sweep.
"""

import itertools

from .. import loader, par
from ..refmodels import P1, P2, P3, P4, dec_number, enc_number

ID = "C07"
LEVEL = "exploration"
ASSUMPTIONS = [
    "reference M1: digit i = (n // 253^i) % 253, byte = digit+1, 0xFE filler above the significant bytes; "
    "decode = sum (b_i-1)*253^i up to the first 0xFE, at most 4 bytes",
    "4-byte decoding is exhaustive over a reduced alphabet only (256^4 strings are not enumerated)",
]

FE = 0xFE


class Raised:
    """What a call into the code under test returned when it raised: an observation that equals no expected value."""

    def __init__(self, e):
        self.text = f"raised {type(e).__name__}: {e}"

    def __repr__(self):
        return self.text

    def hex(self):
        return self.text

    def __getitem__(self, k):
        return self

    def __len__(self):
        return 0

    def __iter__(self):
        return iter(())

    def __contains__(self, x):
        return False


def _plain(v):
    return repr(v) if isinstance(v, Raised) else v


def _guard(fn):
    def call(*a):
        try:
            return fn(*a)
        except Exception as e:  # noqa: BLE001
            return Raised(e)

    return call


def _codec():
    m = loader.lib("eolib.data.number_encoding_utils")
    return _guard(m.encode_number), _guard(m.decode_number)


def _check_block(d3, d2, d1s, out, limit=5):
    """All n = d3*253^3 + d2*253^2 + d1*253 + d0 for d1 in d1s, d0 in 0..252 (odometer reference)."""
    enc, dec = _codec()
    lows = [bytes((i + 1,)) for i in range(253)]
    count = 0
    for d1 in d1s:
        b3 = d3 + 1 if d3 > 0 else FE
        b2 = d2 + 1 if (d3 or d2) else FE
        b1 = d1 + 1 if (d3 or d2 or d1) else FE
        suffix = bytes((b1, b2, b3))
        kmin = 4 if d3 else 3 if d2 else 2 if d1 else 1
        base = d3 * P3 + d2 * P2 + d1 * P1
        for d0 in range(253):
            n = base + d0
            e = enc(n)
            if e != lows[d0] + suffix or dec(e) != n:
                if len(out) < limit:
                    out.append(n)
            elif kmin < 4:
                for k in range(kmin, 4):
                    if dec(e[:k]) != n:
                        if len(out) < limit:
                            out.append(n)
                        break
        count += 253
    return count


def _enc_shard(shard):
    kind, a, b = shard
    loader.install_shims()
    bad, count = [], 0
    if kind == "d3d2":  # all (d3, d2) pairs in [a, b) of the flattened index
        for idx in range(a, b):
            count += _check_block(idx // 253, idx % 253, range(253), bad)
    elif kind == "range":  # arbitrary contiguous range, division-based reference
        enc, dec = _codec()
        for n in range(a, b):
            e = enc(n)
            count += 1
            if e != enc_number(n) or dec(e) != n:
                if len(bad) < 5:
                    bad.append(n)
    return count, bad


def _explicit_shard(ns):
    loader.install_shims()
    enc, dec = _codec()
    bad = []
    for n in ns:
        e = enc(n)
        ok = e == enc_number(n) and dec(e) == n and 0 not in e and 0xFF not in e
        if ok:
            for k in range(1, 5):
                if n < 253**k and (dec(e[:k]) != n or any(x != FE for x in e[k:])):
                    ok = False
        if not ok and len(bad) < 5:
            bad.append(n)
    return len(ns), bad


def _dec_shard(shard):
    """Decode sweep: every byte string of length 0..3 whose first byte is in [a, b)."""
    a, b, alpha4 = shard
    loader.install_shims()
    _, dec = _codec()
    bad, count = [], 0
    v1 = [(x - 1) * P1 for x in range(256)]
    v2 = [(x - 1) * P2 for x in range(256)]
    v3 = [(x - 1) * P3 for x in range(256)]
    for b0 in range(a, b):
        x0 = 0 if b0 == FE else b0 - 1
        stop0 = b0 == FE
        if dec(bytes((b0,))) != x0:
            bad.append(bytes((b0,)))
        count += 1
        for b1 in range(256):
            stop1 = stop0 or b1 == FE
            x1 = x0 if stop1 else x0 + v1[b1]
            if dec(bytes((b0, b1))) != x1:
                bad.append(bytes((b0, b1)))
            count += 1
            pre = bytes((b0, b1))
            if stop1:
                for b2 in range(256):
                    if dec(pre + bytes((b2,))) != x1:
                        bad.append(pre + bytes((b2,)))
            else:
                for b2 in range(256):
                    exp = x1 if b2 == FE else x1 + v2[b2]
                    if dec(pre + bytes((b2,))) != exp:
                        bad.append(pre + bytes((b2,)))
            count += 256
            if len(bad) > 20:
                return count, bad[:5]
        # length 4 and 5: bytes 1..2 over the reduced alphabet, byte 3 over all 256 values
        for b1 in alpha4:
            for b2 in alpha4:
                for b3 in range(256):
                    s = bytes((b0, b1, b2, b3))
                    exp = dec_number(s)
                    if dec(s) != exp or dec(s + b"\x07") != exp:
                        bad.append(s)
                    count += 2
    return count, bad[:5]


ALPHA4 = (0x00, 0x01, 0x02, 0x7F, 0x80, 0xFD, 0xFE, 0xFF)

# call sequences: a pure codec must not remember earlier calls (hidden module-level state)
SEQ_NUMS = (0, 1, 252, 253, 300, P2 - 1, P2, P2 + 300, P3 - 1, P3, P3 + P2, P4 - 1, 2 * P3 + 5)
SEQ_BYTES = (b"", b"\x00", b"\xfe", b"\x05", b"\xfe\x05", b"\x05\x05", b"\x02\xfe\x09", b"\x05\x05\x05", b"\x05\x05\x05\x05",
             b"\xfe\xfe\xfe\x02", b"\xff\xff\xff\xff", b"\x01\x01\x01\x01\x01")


def _bad_arg(tag):
    """Inadmissible arguments are named by JSON-able tags: ['float', n] -> float(n), 'none' -> None, ['str', s] -> s."""
    if tag == "none":
        return None
    kind, v = tag
    return float(v) if kind == "float" else str(v)


BAD_ATOMS = [("xe", ("float", n)) for n in (0, 252, 253, 300, P2, P3, P4 - 1)] + [("xe", "none"), ("xe", ("str", "300")), ("xd", "none"), ("xd", ("str", "\x05")), ("xd", ("float", 5))]


def check_sequence(seq):
    """seq: list of ('e', n) / ('d', bytes).  Every call's result is compared with the reference."""
    enc, dec = _codec()
    for i, (kind, arg) in enumerate(seq):
        if kind in ("xe", "xd"):
            # a call the documented signature does not admit (float / None / str argument): whatever it does - raise or
            # answer - is not judged, but it must not leave anything behind that changes a later, valid call
            try:
                (enc if kind == "xe" else dec)(_bad_arg(arg))
            except Exception:  # noqa: BLE001
                pass
            continue
        if kind == "e":
            got, exp = enc(int(arg)), enc_number(int(arg))
        else:
            got, exp = dec(bytes(arg)), dec_number(bytes(arg))
        if got != exp:
            shown = got.hex() if isinstance(got, bytes) else got
            return f"call #{i} of sequence {[(k, a.hex() if isinstance(a, bytes) else a) for k, a in seq]} returned {shown}"
    return None


def argument_forms():
    """decode_number over bytearray / memoryview / tuple-of-ints inputs, encode_number over bool / IntEnum / int-subclass:
    the answer must be that of the plain bytes / int form."""
    import enum

    class E(enum.IntEnum):
        A = 253
        B = 64009

    class MyInt(int):
        pass

    enc, dec = _codec()
    bad = []
    n = 0
    for s_ in SEQ_BYTES + (b"\x02\x03", b"\x05\xfe\x07\x02", b"\xfd\xfd\xfd\xfd"):
        for form in (bytearray, lambda b: memoryview(bytes(b)), lambda b: bytearray(b) + bytearray()):
            n += 1
            try:
                got = dec(form(s_))
            except Exception as e:  # noqa: BLE001
                got = f"raised {type(e).__name__}"
            if got != dec_number(s_):
                bad.append(f"decode_number({type(form(s_)).__name__} {s_.hex()}) = {got}, the positional formula gives {dec_number(s_)}")
    for v, plain in ((True, 1), (False, 0), (E.A, 253), (E.B, 64009), (MyInt(P3), P3)):
        n += 1
        try:
            got = enc(v)
        except Exception as e:  # noqa: BLE001
            got = f"raised {type(e).__name__}"
        if got != enc_number(plain):
            bad.append(f"encode_number({v!r}) = {got!r}, expected {enc_number(plain).hex()}")
    return n, bad


def _seq_cases(depth):
    atoms = [("e", n) for n in SEQ_NUMS] + [("d", b) for b in SEQ_BYTES]
    for d in range(2, depth + 1):
        yield from itertools.product(atoms, repeat=d)
    # error paths: valid call, inadmissible call, valid call (and inadmissible first)
    for bad in BAD_ATOMS:
        for a in atoms:
            yield (bad, a)
            for b in atoms:
                yield (a, bad, b)


def _seq_shard(cases):
    loader.install_shims()
    bad = []
    prev = []
    for seq in cases:
        w = check_sequence(seq)
        if w and len(bad) < 3:
            # what an earlier sequence of this process left behind may be part of the cause: keep the context
            bad.append((list(seq), w, [list(q) for q in prev[-3:]]))
        prev.append(seq)
    return len(cases), bad


def run(tier, seed):
    loader.install_shims()
    enc, dec = _codec()
    violations = []
    evals = 0
    W = par.WORKERS * 4

    def add(kind, items, fmt):
        for it in items:
            v = {"key": f"{kind}:{fmt(it)}", "what": f"{kind} mismatch at {fmt(it)}", "case": {"kind": kind, "value": it}}
            if kind == "decode":
                # a decoder that remembers earlier inputs gives this answer only after its siblings were decoded: the
                # prefixes of the string first, or its zero-extended forms first (the sweep's own order)
                b = bytes(it)
                pre = [["d", b[:k]] for k in range(len(b))]
                ext = [["d", b + bytes(k)] for k in (3, 2, 1)]
                v["alt_cases"] = [{"kind": "sequence", "value": pre + [["d", b]]}, {"kind": "sequence", "value": ext + [["d", b]]}, {"kind": "sequence", "value": ext + pre + [["d", b]]}]
            violations.append(v)

    # --- encode side
    if tier == "quick":
        shards = [("d3d2", a, b) for a, b in par.ranges(0, 253, W)]  # d3 = 0: all of [0, 253^3)
        res = par.pmap(_enc_shard, shards)
        enc_full = sum(r[0] for r in res)
        for _, bad in res:
            add("encode", bad, str)
        digs = (0, 1, 2, 126, 127, 251, 252)
        explicit = [
            d3 * P3 + d2 * P2 + d1 * P1 + d0
            for d3 in range(1, 253)
            for d2, d1, d0 in itertools.product(digs, repeat=3)
        ]
        # digit table: every digit value at every digit position, the other digits over {0, 1, 126, 252}
        for pos in range(4):
            for v in range(253):
                for others in itertools.product((0, 1, 126, 252), repeat=3):
                    ds = list(others)
                    ds.insert(pos, v)
                    explicit.append(ds[0] + ds[1] * P1 + ds[2] * P2 + ds[3] * P3)
        for m in range(1, 253):
            explicit.extend(range(m * P3 - 300, m * P3 + 300))
        explicit.extend(range(P4 - 600, P4))
        res = par.pmap(_explicit_shard, par.chunks(explicit, W))
        enc_explicit = sum(r[0] for r in res)
        for _, bad in res:
            add("encode", bad, str)
        span = 4_000_000
        lo = P3 + (seed * 2_654_435_761) % (P4 - P3 - span)
        res = par.pmap(_enc_shard, [("range", a, b) for a, b in par.ranges(lo, lo + span, W)])
        enc_window = sum(r[0] for r in res)
        for _, bad in res:
            add("encode", bad, str)
        evals += enc_full + enc_explicit + enc_window
        enc_desc = {
            "complete_range": [0, P3],
            "four_byte_boundary_values": enc_explicit,
            "four_byte_window": [lo, lo + span],
            "whole_int_range_exhaustive": False,
        }
    else:
        shards = [("d3d2", a, b) for a, b in par.ranges(0, 253 * 253, 253 * 4)]
        res = par.pmap(_enc_shard, shards)
        n_enc = sum(r[0] for r in res)
        for _, bad in res:
            add("encode", bad, str)
        evals += n_enc
        enc_desc = {"complete_range": [0, P4], "whole_int_range_exhaustive": n_enc == P4}

    # --- decode side
    res = par.pmap(_dec_shard, [(a, b, ALPHA4) for a, b in par.ranges(0, 256, W)])
    n_dec = sum(r[0] for r in res)
    for _, bad in res:
        add("decode", bad, lambda b: bytes(b).hex())
    if dec(b"") != 0:
        add("decode", [b""], lambda b: "empty")
    evals += n_dec + 1

    seq_cases = list(_seq_cases(3 if tier == "quick" else 4))
    res = par.pmap(_seq_shard, par.chunks(seq_cases, W))
    n_seq = sum(r[0] for r in res)
    evals += n_seq
    for _, bad in res:
        for seq, what, prev in bad:
            alts = [{"kind": "sequence", "value": [[k, a] for q in prev[-n:] for k, a in q] + [[k, a] for k, a in seq]} for n in (1, 3) if prev]
            violations.append({"key": "sequence:" + ",".join(k for k, _ in seq), "what": what, "case": {"kind": "sequence", "value": [[k, a] for k, a in seq]}, "alt_cases": alts})

    n_forms, form_bad = argument_forms()
    evals += n_forms
    for w in form_bad[:3]:
        violations.append({"key": "argument-form:" + w.split("(")[0], "what": w, "case": {"kind": "forms", "value": 0}})

    samples = [
        {"n": n, "encoded": enc(n).hex(), "decoded": _plain(dec(enc(n)))} for n in (0, 252, 253, 64008, 64009, P3 - 1, P3, P4 - 1)
    ] + [{"bytes": s.hex(), "decoded": _plain(dec(s))} for s in (b"", b"\x00", b"\xfe\x05", b"\x02\xfe\x09", b"\xff\xff\xff\xff")]
    coverage = {
        "evaluations": evals,
        "distinct_nontrivial": evals - 1,
        "encode": enc_desc,
        "decode_strings": n_dec + 1,
        "call_sequences": n_seq,
        "decode_exhaustive_up_to_len": 3,
        "decode_len4_alphabet_bytes_1_2": [hex(x) for x in ALPHA4],
        "exhaustive": tier == "thorough" and enc_desc.get("whole_int_range_exhaustive", False),
        "rule": (
            "encode side: every enumerated integer is a distinct case; checked byte-exactly against the odometer/"
            "division reference (no 0x00/0xFF, 0xFE filler exactly above the significant bytes), decode(encode(n))==n, "
            "and decode of every prefix of length k>=significant bytes == n.  decode side: every byte string of "
            "length 0..3 (16,843,009) plus length 4/5 strings with byte 3 over all 256 values and bytes 1-2 over the "
            "reduced alphabet, compared with the positional formula.  call_sequences: every ordered sequence of 2..3/4 calls over 13 boundary integers and 12 byte strings (hidden-state detection), plus every (valid, inadmissible, valid) triple with 12 inadmissible calls (float / None / str arguments: not judged themselves, but they must leave nothing behind).  Non-trivial = all but the empty string."
        ),
        "samples": samples,
    }
    from .. import kwforms

    for w in kwforms.check("number"):
        violations.append({"key": "keyword-form:" + w.split(":")[0][:60], "what": w, "case": {"kwforms": True}})
    coverage["keyword_call_forms_checked"] = True
    return {"coverage": coverage, "violations": violations}


def replay(case):
    if isinstance(case, dict) and case.get("kwforms"):
        from .. import kwforms

        bad = kwforms.check("number")
        return bad[0] if bad else None
    loader.install_shims()
    enc, dec = _codec()
    if case["kind"] == "forms":
        _, bad = argument_forms()
        return bad[0] if bad else None
    if case["kind"] == "sequence":
        return check_sequence([(k, a) for k, a in case["value"]])
    if case["kind"] == "encode":
        n = int(case["value"])
        e = enc(n)
        if e != enc_number(n):
            return f"encode_number({n}) = {e.hex()} but the format prescribes {enc_number(n).hex()}"
        if dec(e) != n:
            return f"decode_number(encode_number({n})) = {dec(e)}"
        for k in range(1, 5):
            if n < 253**k and dec(e[:k]) != n:
                return f"first {k} bytes of encode_number({n}) decode to {dec(e[:k])}"
        return None
    s = bytes(case["value"])
    if dec(s) != dec_number(s):
        return f"decode_number({s.hex()}) = {dec(s)} but the positional formula gives {dec_number(s)}"
    if len(s) == 4 and dec(s + b"\x07") != dec_number(s):
        return f"decode_number({s.hex()}07) = {dec(s + bytes([7]))}: a fifth byte changed the result"
    return None
