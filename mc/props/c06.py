"""C06 - chunk framing isolates chunks from over- and under-reads.

E1 over write-histories x read-histories: every list of 1..3 chunks of typed fields (written with
sanitisation on, one break byte between chunks) x every per-chunk read plan (a prefix of the chunk's
fields, then 0..2 surplus reads, then next_chunk).  In-prefix reads must return what was written,
surplus reads after a complete prefix must return 0/"", so what is read from a chunk is independent
of the plans applied to the other chunks.
"""

import itertools

from .. import loader, par
from ..refmodels import P1, P2, P3, P4

ID = "C06"
LEVEL = "model_checking"
ASSUMPTIONS = [
    "fields: in-range EO integers, fixed strings of width 2 and 0, padded strings that exactly fill width 2, a trailing (encoded) string only as the last field of a chunk",
    "values returned by surplus reads after a PARTIAL prefix are not judged (the statement fixes only what later chunks see)",
    "depth-bounded: <= 3 chunks, <= 2 fields per chunk, <= 2 surplus reads",
]

FIXED = [("byte", 254), ("char", 0), ("char", 252), ("short", 253), ("short", P2 - 1), ("three", P3 - 1), ("int", 0), ("int", P4 - 1),
         ("fstr", "ab"), ("fstr", "aÿ"), ("fstr", "ÿÿ"),
         # a zero-width fixed field, and padded fields that exactly fill their width (the only padded form a chunk can hold:
         # padding bytes are break bytes)
         ("fstr0", ""), ("pfit", "aÿ"), ("pfit", "ÿÿ")]
TRAIL = [("str", ""), ("str", "a"), ("str", "ÿ"), ("str", "ÿes"), ("str", "aÿ"), ("str", "Ā"),
         ("estr", ""), ("estr", "a"), ("estr", "ÿ"), ("estr", "ÿa")]
SURPLUS = ("get_char", "get_int", "get_string", "get_fixed_string2", "get_short", "get_encoded_string", "get_byte", "get_bytes2", "get_three")
SURPLUS_RED = ("get_int", "get_string", "get_byte")


def image(s):
    return s.encode("cp1252", "replace").replace(b"\xff", b"y").decode("cp1252")


def chunk_contents(full):
    out = [()]
    fields = FIXED + TRAIL
    out += [(f,) for f in fields]
    if full:
        # the zero-width and exactly-filled padded kinds pair with a reduced set of second fields (keeps the thorough tier
        # within its budget); every other fixed kind pairs with every field
        new_kinds = ("fstr0", "pfit")
        out += [(a, b) for a in FIXED if a[0] not in new_kinds for b in fields]
        out += [(a, b) for a in FIXED if a[0] in new_kinds for b in (("char", 252), ("str", "ÿ"), ("int", P4 - 1), ("fstr", "aÿ"))]
    else:
        out += [(("char", 252), ("str", "ÿ")), (("short", 253), ("int", P4 - 1)), (("fstr", "aÿ"), ("estr", "ÿa")), (("three", P3 - 1), ("str", ""))]
    return out


def plans_for(chunk, surplus_ops, max_surplus):
    """(prefix length, tuple of surplus reads)"""
    sur = [()]
    for k in range(1, max_surplus + 1):
        sur += list(itertools.product(surplus_ops, repeat=k))
    return [(k, s) for k in range(len(chunk) + 1) for s in sur]


def write_chunks(chunks):
    W = loader.lib("eolib.data.eo_writer").EoWriter
    w = W()
    w.string_sanitization_mode = True
    for i, chunk in enumerate(chunks):
        if i:
            w.add_byte(0xFF)
        for kind, v in chunk:
            if kind in ("byte", "char", "short", "three", "int"):
                getattr(w, "add_" + kind)(v)
            elif kind == "fstr":
                w.add_fixed_string(v, 2)
            elif kind == "fstr0":
                w.add_fixed_string(v, 0)
            elif kind == "pfit":
                w.add_fixed_string(v, 2, True)
            elif kind == "str":
                w.add_string(v)
            elif kind == "estr":
                w.add_encoded_string(v)
    return bytes(w.to_bytearray())


def _read_field(r, kind):
    if kind in ("byte", "char", "short", "three", "int"):
        return getattr(r, "get_" + kind)()
    if kind == "fstr":
        return r.get_fixed_string(2)
    if kind == "fstr0":
        return r.get_fixed_string(0)
    if kind == "pfit":
        return r.get_fixed_string(2, True)
    if kind == "str":
        return r.get_string()
    return r.get_encoded_string()


def _surplus(r, name):
    if name == "get_fixed_string2":
        return r.get_fixed_string(2)
    if name == "get_bytes2":
        return bytes(r.get_bytes(2))
    return getattr(r, name)()


def _foreign_unsanitised_writer(chunks):
    """Another writer, sanitisation OFF, writes the same fields first (and stays alive): what one writer was asked to do
    must not leak into a different writer that IS sanitising."""
    W = loader.lib("eolib.data.eo_writer").EoWriter
    w = W()
    for chunk in chunks:
        for kind, v in chunk:
            try:
                if kind == "fstr":
                    w.add_fixed_string(v, 2)
                elif kind == "pfit":
                    w.add_fixed_string(v, 2, True)
                elif kind == "str":
                    w.add_string(v)
                elif kind == "estr":
                    w.add_encoded_string(v)
            except Exception:  # noqa: BLE001 - the foreign writer is only context
                pass
    return w


def run_case(chunks, plans, via_slice=0, foreign=0):
    """chunks: list of field tuples; plans: one (prefix_len, surplus ops) per chunk.
    foreign: 1 = an unsanitised writer writes the same strings before the sanitising writer does.
    via_slice: 0 = read directly; 1 = read everything through parent.slice() taken while the parent is in chunked mode;
    2 = read chunk 0 on the parent, next_chunk, then read the rest through parent.slice()."""
    R = loader.lib("eolib.data.eo_reader").EoReader
    try:
        keep = _foreign_unsanitised_writer(chunks) if foreign else None
        data = write_chunks(chunks)
        del keep
    except Exception as e:  # noqa: BLE001
        return f"writing raised {type(e).__name__}: {e}"
    if data.count(b"\xff") != len(chunks) - 1:
        return f"output {data.hex()} of {len(chunks)} chunks contains {data.count(bytes([255]))} break bytes"
    try:
        r = R(data)
        r.chunked_reading_mode = True
        if via_slice == 1:
            r = r.slice()
            r.chunked_reading_mode = True
            data = data  # the slice starts at the parent's position 0 and must cover all the data
        for ci, (chunk, (k, sur)) in enumerate(zip(chunks, plans)):
            if via_slice == 2 and ci == 1:
                base = r.position
                r = r.slice()
                r.chunked_reading_mode = True
                data = data[base:]
            for fi in range(k):
                kind, v = chunk[fi]
                got = _read_field(r, kind)
                exp = image(v) if isinstance(v, str) else v
                if got != exp:
                    return f"chunk {ci} field {fi} ({kind}) read {got!r}, written {exp!r} (data {data.hex()})"
            for name in sur:
                got = _surplus(r, name)
                if k == len(chunk) and got not in (0, "", b""):
                    return f"chunk {ci}: surplus {name} after all fields returned {got!r} (data {data.hex()})"
            # no property reads between the plan's reads and next_chunk(): an observation must not perturb the reader
            r.next_chunk()
        if r.remaining != 0 or r.position != len(data):
            return f"after the last chunk remaining={r.remaining} position={r.position} len={len(data)}"
    except Exception as e:  # noqa: BLE001
        return f"reading raised {type(e).__name__}: {e}"
    return None


def _shard(shard):
    lists, surplus_ops, max_surplus = shard
    loader.install_shims()
    count, bad, outcomes = 0, [], 0
    for chunks in lists:
        per_chunk = [plans_for(c, surplus_ops, max_surplus) for c in chunks]
        for plans in itertools.product(*per_chunk):
            count += 1
            w = run_case(chunks, plans)
            if w and len(bad) < 3:
                bad.append(({"chunks": [list(map(list, c)) for c in chunks], "plans": [[k, list(s)] for k, s in plans]}, w))
            if len(chunks) == 3:
                for via in (1, 2):
                    count += 1
                    w = run_case(chunks, plans, via)
                    if w and len(bad) < 3:
                        bad.append(({"chunks": [list(map(list, c)) for c in chunks], "plans": [[k, list(s)] for k, s in plans], "via_slice": via}, f"(reading through a slice, variant {via}) {w}"))
    return count, len(lists), bad


def _full_plans(chunks):
    return [(len(c), ()) for c in chunks]


def _char_shard(job):
    """Every string of the character alphabet (mc/charsweep.py) as a trailing and as an encoded string inside the first
    two of three chunks: the output must contain exactly two break bytes and every chunk must read back."""
    from .. import charsweep

    loader.install_shims()
    count, bad = 0, []
    for s in charsweep.strings(job):
        # '~' is the one character an encoded string cannot carry (excluded by the statement's sibling C04): plain there
        chunks = [(("char", 7), ("str", s)), (("short", 253), ("estr" if "~" not in image(s) else "str", s)), (("int", P4 - 1),)]
        for plans in (_full_plans(chunks), [(1, ()), (1, ("get_int",)), (1, ())]):
            count += 1
            w = run_case(chunks, plans)
            if w and len(bad) < 3:
                bad.append(({"chunks": [list(map(list, c)) for c in chunks], "plans": [[k, list(p)] for k, p in plans]}, w))
    return count, 0, bad


def _foreign_shard(lists):
    """Chunk lists written by a sanitising writer AFTER an unsanitised writer wrote the same strings (fresh process per
    shard, so the foreign writer really is the first to see each string)."""
    loader.install_shims()
    count, bad = 0, []
    for chunks in lists:
        for plans in (_full_plans(chunks), [(0, ("get_int",)) for _ in chunks]):
            count += 1
            w = run_case(chunks, plans, 0, 1)
            if w and len(bad) < 3:
                bad.append(({"chunks": [list(map(list, c)) for c in chunks], "plans": [[k, list(p)] for k, p in plans], "foreign": 1}, "(an unsanitised writer wrote the same strings first) " + w))
    return count, 0, bad


LADDER = (8, 16, 23, 24, 25, 32, 64, 128, 256, 300, 1025, 65537)


def ladder_cases():
    """Long strings (the framing must not depend on data length): a long sanitised string in the first chunk, then a
    short chunk that must still be read correctly, under a few plans."""
    out = []
    for L in LADDER:
        for s in ("ÿ" + "a" * (L - 1), "a" * (L - 1) + "ÿ", "a" * (L // 2) + "ÿ" + "b" * (L - L // 2 - 1)):
            for kind in ("str", "estr"):
                chunks = [(("char", 7), (kind, s)), (("short", 253),), (("str", "tail"),)]
                for plans in ([(2, ()), (1, ()), (1, ())], [(0, ()), (1, ("get_int",)), (1, ())], [(1, ("get_char",)), (0, ()), (1, ())]):
                    out.append((chunks, plans))
    return out


def run(tier, seed):
    loader.install_shims()
    quick = tier == "quick"
    full, red = chunk_contents(True), chunk_contents(False)
    jobs = []
    W = par.WORKERS * 3
    redq = red if not quick else red[:3] + red[-4:]
    sur2 = SURPLUS if not quick else ("get_int", "get_string", "get_fixed_string2")
    # one chunk: every content, the full surplus menu
    jobs += [(c, SURPLUS, 2) for c in par.chunks([(a,) for a in full], W)]
    # two chunks: (full x reduced) and (reduced x full)
    two = [(a, b) for a in full for b in redq] + [(a, b) for a in redq for b in full if b not in redq]
    jobs += [(c, sur2, 2) for c in par.chunks(two, W)]
    # three chunks over the reduced contents, reduced surplus menu
    # three chunks (each list is also read through slices): bounded so that the family stays around 10^7 executions
    three = [t for t in itertools.product(redq if quick else red[:3] + red[-9:], repeat=3)]
    jobs += [(c, SURPLUS_RED, 1) for c in par.chunks(three, W)]
    res = par.pmap(_shard, jobs)
    from .. import charsweep

    res_chars = par.pmap(_char_shard, charsweep.jobs(tier))
    char_n = sum(r[0] for r in res_chars)
    res += res_chars
    foreign_lists = [(a,) for a in full] + two
    res_foreign = par.pmap(_foreign_shard, par.chunks(foreign_lists, W))
    foreign_n = sum(r[0] for r in res_foreign)
    res += res_foreign
    lad = ladder_cases()
    lad_bad = []
    for chunks, plans in lad:
        w = run_case(chunks, plans)
        if w and len(lad_bad) < 3:
            lad_bad.append(({"chunks": [list(map(list, c)) for c in chunks], "plans": [[k, list(s)] for k, s in plans]}, w))
    res.append((len(lad), 0, lad_bad))
    count = sum(r[0] for r in res)
    nlists = sum(r[1] for r in res)
    violations = []
    for r in res:
        for case, what in r[2]:
            key = "chunks:" + what.split("(data")[0].split(" read ")[0][:50]
            violations.append({"key": key, "what": f"{case}: {what}", "case": case})
    coverage = {
        "states": nlists,
        "transitions": count,
        "traces_validated_against_impl": count,
        "evaluations": count,
        "distinct_nontrivial": count - 1,
        "chunk_lists": nlists,
        "character_sweep_cases": char_n,
        "character_sweep_strings": charsweep.total(),
        "after_foreign_unsanitised_writer_cases": foreign_n,
        "chunk_contents_full": len(full),
        "chunk_contents_reduced": len(red),
        "exhaustive": True,
        "rule": "states = distinct chunk lists (write histories); transitions = (chunk list, read plan) executions; every list of "
        "1 chunk over all contents, 2 chunks over full x reduced contents, 3 chunks over reduced contents; every plan = per "
        "chunk every prefix length x every sequence of <=2 surplus reads, then next_chunk; in-prefix reads must equal the "
        "written (sanitised cp1252) values, surplus reads after a complete prefix must be 0/empty, the output contains "
        "exactly chunks-1 break bytes; three-chunk lists are also read through parent.slice() (taken at the start / after the first chunk); plus a length ladder: strings of 8..65537 characters containing a y-diaeresis in the first of three chunks; plus the character sweep: every Unicode code point U+0000..U+10FFFF as a one-character string and every (windows-1252 character, combining mark) pair as a trailing and an encoded string in the first two of three chunks; plus every one- and two-chunk list written after a different, unsanitised writer wrote the same strings",
        "samples": [{"chunks": [[["char", 252], ["str", "ÿ"]], [], [["int", P4 - 1]]], "plans": [[1, ["get_int"]], [0, ["get_string"]], [1, []]]}],
    }
    return {"coverage": coverage, "violations": violations}


def replay(case):
    loader.install_shims()
    chunks = [tuple((k, v) for k, v in c) for c in case["chunks"]]
    plans = [(int(k), tuple(s)) for k, s in case["plans"]]
    return run_case(chunks, plans, int(case.get("via_slice", 0)), int(case.get("foreign", 0)))
