"""C20 - the public namespace resolves every documented name to the right object.

Configurations are enumerated: for every tree (corpus, cross-file trees, minimal tree, one tree per
type name that snake-cases to a documented module leaf name) the real `protocol.py generate` is run
in a scratch install, and then ONE FRESH INTERPRETER PER MODULE of the installed package (static and
generated) imports that module first, then `import eolib`, and reports
  - for every documented dotted path: attribute traversal from `eolib` vs sys.modules[path];
  - for every public name the static subpackage modules define and every generated class:
    top-level object is home-subpackage object is defining-module object.
The reports must be violation-free and identical for every first-import choice.
"""

import json
import os
import shutil

from .. import genpipe, loader, par, realflow, specs, trees
from ..specs import field, struct

ID = "C20"
LEVEL = "exploration"
ASSUMPTIONS = [
    "documented paths: eolib.{data,encrypt,packet,protocol}, eolib.protocol.{map,net,net.client,net.server,pub,pub.server} and "
    "the static modules under them",
    "type names whose CLASS would collide with a hand-written public class (Packet, EoReader, ...) or whose module would "
    "collide with a sibling directory are degenerate and not generated",
]

DOC_PACKAGES = ["eolib.data", "eolib.encrypt", "eolib.packet", "eolib.protocol", "eolib.protocol.map", "eolib.protocol.net",
                "eolib.protocol.net.client", "eolib.protocol.net.server", "eolib.protocol.pub", "eolib.protocol.pub.server"]
STATIC_MODULES = {
    "eolib.data": ["eo_numeric_limits", "number_encoding_utils", "string_encoding_utils", "eo_reader", "eo_writer"],
    "eolib.encrypt": ["encryption_utils", "server_verification_utils"],
    "eolib.packet": ["sequence_start", "packet_sequencer"],
    "eolib.protocol": ["serialization_error", "protocol_enum_meta"],
    "eolib.protocol.net": ["packet"],
}

PROBE = r"""
import sys, json, importlib, types
first, spec = sys.argv[1], json.loads(sys.argv[2])
res = {"first": first, "first_error": None, "bad_paths": [], "bad_names": [], "eolib_error": None}
try:
    importlib.import_module(first)
except BaseException as e:
    res["first_error"] = type(e).__name__ + ": " + str(e)[:200]
try:
    import eolib
except BaseException as e:
    res["eolib_error"] = type(e).__name__ + ": " + str(e)[:200]
    print(json.dumps(res)); raise SystemExit(0)
for p in spec["paths"]:
    try:
        importlib.import_module(p)
    except BaseException as e:
        res["bad_paths"].append([p, "import fails: " + type(e).__name__]); continue
    obj = eolib
    try:
        for part in p.split(".")[1:]:
            obj = getattr(obj, part)
    except AttributeError:
        res["bad_paths"].append([p, "AttributeError"]); continue
    if obj is not sys.modules[p]:
        res["bad_paths"].append([p, getattr(obj, "__name__", None) or repr(obj)[:60]])
def public_names(mod):
    # the names a module itself declares public: __all__ if it has one, else what it defines
    # (classes/functions whose __module__ is the module; constants only for the numeric-limits module)
    if hasattr(mod, "__all__"):
        return sorted(mod.__all__)
    out = []
    for n, v in vars(mod).items():
        if n.startswith("_") or isinstance(v, types.ModuleType):
            continue
        if getattr(v, "__module__", None) == mod.__name__ or (mod.__name__.endswith("eo_numeric_limits") and isinstance(v, int) and n.isupper()):
            out.append(n)
    return sorted(out)
for home, mods in spec["static"].items():
    for m in mods:
        try:
            dm = importlib.import_module(home + "." + m)
        except BaseException as e:
            res["bad_names"].append([home + "." + m, "*", "import fails"]); continue
        for n in public_names(dm):
            a, b, c = getattr(eolib, n, None), getattr(sys.modules[home], n, None), getattr(dm, n)
            if a is not c or b is not c:
                res["bad_names"].append([home + "." + m, n, "top-level" if a is not c else "home subpackage"])
for sub, modpath, name in spec["generated"]:
    home = "eolib.protocol" + ("." + sub if sub else "")
    try:
        dm = importlib.import_module(modpath)
        c = getattr(dm, name)
        importlib.import_module(home)
    except BaseException as e:
        res["bad_names"].append([modpath, name, "import fails: " + type(e).__name__]); continue
    a, b = getattr(eolib, name, None), getattr(sys.modules[home], name, None)
    if a is not c or b is not c:
        res["bad_names"].append([modpath, name, "top-level" if a is not c else "home subpackage"])
print(json.dumps(res))
"""


DIR_CLASH = {("Client", "net"), ("Server", "net"), ("Server", "pub")}  # a module would shadow a sibling directory
KNOWN_BAD_REF = ("ref:map_uses_net-client", "ref:map_uses_net-server", "ref:net_uses_net-client", "ref:net_uses_net-server")


def collision_trees(tier="thorough"):
    """A struct whose module name equals a documented leaf name, in every directory where that is not degenerate."""
    names = ("Data", "Encrypt", "Protocol", "Map", "Net", "Pub", "Client", "Server")
    out = []
    for i, name in enumerate(names):
        for j, d in enumerate(specs.FILES):
            if (name, d) in DIR_CLASH:
                continue
            if tier == "quick" and not ((i + j) % 4 == 0 or (name, d) in (("Client", "net/server"), ("Server", "net/client"), ("Data", "net"), ("Protocol", "net"))):
                continue
            out.append((f"collide:{name}@{d}", {d: [struct(name, [field("v", "char")])]}, 1))
    return out


def tree_spec(files, nf):
    paths = list(DOC_PACKAGES)
    for home, mods in STATIC_MODULES.items():
        paths += [f"{home}.{m}" for m in mods]
    generated = []
    for sub, name in realflow.declared_types(files, nf):
        generated.append([sub, "eolib.protocol._generated." + (sub + "." if sub else "") + genpipe.snake(name), name])
    return {"paths": paths, "static": STATIC_MODULES, "generated": generated}


def first_import_choices(spec, tier):
    firsts = ["eolib"] + list(spec["paths"])
    gen = [g[1] for g in spec["generated"]]
    firsts += ["eolib.protocol._generated." + s for s in ("net", "net.client", "net.server", "map", "pub", "pub.server")]
    firsts += gen if tier != "quick" else gen[:: max(1, len(gen) // 12)]
    return list(dict.fromkeys(firsts))


def run_tree(job, only_first=None, api_mode=None):
    name, files, nf, tier = job
    loader.install_shims()
    root = realflow.make_install(files, n_families=nf)
    try:
        rc, out = realflow.run_generate(root)
        if rc != 0:
            return name, 0, [("generate", f"tree '{name}': protocol.py generate failed: {out[-300:]}")], []
        spec = tree_spec(files, nf)
        firsts = first_import_choices(spec, tier) if only_first is None else [only_first]
        from concurrent.futures import ThreadPoolExecutor

        with ThreadPoolExecutor(max_workers=6) as ex:
            reports = list(ex.map(lambda f: realflow.probe(root, PROBE, [f, json.dumps(spec)]), firsts))
        n = len(firsts)
        # the package may also be produced through the generator's API: with the input root spelled '.', and after another
        # tree (same type names in other directories) was generated in the same interpreter.  If the files are the same
        # as protocol.py's, so is every import; if they differ, the namespace is probed again.
        if only_first is None or api_mode:
            ref = realflow.snapshot(realflow.generated_dir(root))
            for mode in (["dot", "twin"] if "" not in files else ["dot"]) if api_mode is None else [api_mode]:
                rc, out = realflow.run_generate_api(root, mode, files, nf)
                n += 1
                if rc != 0:
                    if "twin" in mode and "twin-xml" in out and "generate(Path(os.path.join(root, \"twin-out\")))" in out:
                        continue  # the rotated twin itself is not a valid tree for this shape: nothing to learn
                    return name, n, [(f"generate-api-{mode}", f"tree '{name}': generating through the API ({mode}) failed: {out[-300:]}")], reports
                if realflow.diff_snapshots(ref, realflow.snapshot(realflow.generated_dir(root))):
                    more = [realflow.probe(root, PROBE, [f, json.dumps(spec)]) for f in (firsts[:2] if api_mode is None else firsts[:1])]
                    for r in more:
                        r["first"] = f"{r.get('first')} [package generated through the API: {mode}]"
                        r["api_mode"] = mode
                    reports += more
                    n += len(more)
        return name, n, [], reports
    finally:
        shutil.rmtree(root, ignore_errors=True)


def judge_reports(name, reports):
    """-> list of (key, what, first) violations"""
    out = []
    canon = None
    for r in reports:
        first = r.get("first")
        if r.get("probe_failed"):
            out.append((f"probe:{name}", f"tree '{name}': probe crashed: {r}", first))
            continue
        if r.get("eolib_error"):
            out.append((f"import-eolib-after:{first}", f"tree '{name}': after importing {first} first, `import eolib` fails: {r['eolib_error']}", first))
            continue
        if r.get("first_error"):
            out.append((f"first-import:{first}", f"tree '{name}': importing {first} first fails: {r['first_error']}", first))
        for p, got in r["bad_paths"]:
            out.append((f"path:{p}->{got}", f"tree '{name}', first import {first}: attribute path {p} resolves to {got}, not to sys.modules[{p!r}]", first))
        for mod, n, where in r["bad_names"]:
            out.append((f"name:{mod}.{n}:{where}", f"tree '{name}', first import {first}: {n} defined in {mod} is not the same object at the {where}", first))
        sig = (tuple(map(tuple, r["bad_paths"])), tuple(map(tuple, r["bad_names"])))
        if canon is None:
            canon = (first, sig)
        elif sig != canon[1]:
            out.append((f"order-dependent:{name}", f"tree '{name}': resolution differs between first import {canon[0]} and {first}", first))
    return out


def run(tier, seed):
    loader.install_shims()
    # 
    # the four reference directions that do not import completely are C18's known findings; nothing can be resolved there
    tl = [t for t in trees.all_trees(tier) if t[0] not in KNOWN_BAD_REF] + collision_trees(tier)
    res = par.pmap(run_tree, [(n, f, nf, tier) for n, f, nf in tl])
    violations, total, names_checked = [], 0, 0
    for name, nfirst, errs, reports in res:
        total += nfirst
        for k, what in errs:
            violations.append({"key": f"{k}:{name}", "what": what, "case": {"tree": name, "key": f"{k}:{name}"}})
        for key, what, first in judge_reports(name, reports):
            violations.append({"key": key, "what": what, "case": {"tree": name, "first": first, "key": key}})
    coverage = {
        "evaluations": total,
        "distinct_nontrivial": total,
        "trees": [t[0] for t in tl],
        "fresh_interpreters": total,
        "documented_paths": len(tree_spec({}, 1)["paths"]),
        "exhaustive": tier != "quick",
        "rule": "per tree: one fresh interpreter per first-import choice (eolib, every documented package and static module, the "
        "generated packages, and the generated modules - all of them in the thorough tier, every k-th in quick); each "
        "interpreter checks every documented path and every public static name / generated class for identity; each "
        "(tree, first import) is a distinct configuration; each tree is also generated through the generator's API with the input root spelled '.', and after a twin tree (the same type names declared in other directories) was generated in the same interpreter - if the files differ from protocol.py's, the namespace is probed again",
        "samples": [{"tree": tl[1][0], "first_imports": first_import_choices(tree_spec(tl[1][1], tl[1][2]), tier)[:6]}],
    }
    return {"coverage": coverage, "violations": violations}


def replay(case):
    loader.install_shims()
    tl = {t[0]: t for t in trees.all_trees("thorough") + collision_trees()}
    name, files, nf = tl[case["tree"]]
    first, api_mode = case.get("first"), None
    if first and " [package generated through the API: " in first:
        first, api_mode = first.split(" [package generated through the API: ")
        api_mode = api_mode.rstrip("]")
    elif case.get("key", "").startswith("generate-api-"):
        api_mode = case["key"].split(":")[0][len("generate-api-"):]
    _, _, errs, reports = run_tree((name, files, nf, "thorough"), only_first=first, api_mode=api_mode)
    if errs:
        return errs[0][1]
    for key, what, first in judge_reports(name, reports):
        if case.get("key") in (None, key) and (case.get("first") in (None, first)):
            return what
    return None
