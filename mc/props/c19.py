"""C19 - generated protocol objects are immutable snapshots.

E3 x E1-style histories: every valid body x two instances per value (constructed; deserialized
from its own serialization) x every history of <= 2/3 steps over the menu
  serialize | setattr(obj, public name, same/other/None) | mutate the list an array was built from
for the instance itself and for every nested struct / case-data instance reachable through its
properties.  Oracle: every setattr raises AttributeError, arrays are tuples equal to their
construction-time contents, every serialize yields the bytes of the first, the observed snapshot
never changes.
"""

import collections.abc
import itertools

from .. import e3, loader, values
from ..xtypes import resolve
from .c02 import _dec, _enc, real_serialize, ref_serialize

ID = "C19"
LEVEL = "exploration"
ASSUMPTIONS = [
    "public interface = names without a leading underscore; mutation through private names is out of scope",
    "caller-side mutation concerns the iterables arrays were built from (lists); bytes-like blob arguments are not mutated",
]


def public_names(obj):
    return [n for n in dir(obj) if not n.startswith("_") and not callable(getattr(type(obj), n, None))]


def reachable(ad, obj, cls, unit, prefix="obj"):
    """(label, instance, class, unit) for the instance and every nested struct/case-data instance."""
    from ..specs import instructions

    out = [(prefix, obj, cls, unit)]
    for ins in values._scope_nodes(unit):
        if ins.tag in ("field", "array") and ins.get("name"):
            t = resolve(ins.get("type"), ad.env)
            if t.kind != "struct":
                continue
            v = getattr(obj, ins.get("name"))
            els = v if ins.tag == "array" else [v]
            for i, el in enumerate(els or []):
                if el is not None and i < 2:
                    out += reachable(ad, el, ad.type_class(t.name), ad.env.structs[t.name], f"{prefix}.{ins.get('name')}[{i}]")
        elif ins.tag == "switch":
            data = getattr(obj, ins.get("field") + "_data")
            if data is not None:
                for c in ins.kids:
                    if c.tag == "case" and instructions(c) and type(data) is ad.case_class(cls, ins.get("field"), c):
                        out += reachable(ad, data, type(data), c, f"{prefix}.{ins.get('field')}_data")
    return out


_OPTPASS = bool(__import__("os").environ.get("VERIF_OPTPASS"))


class SeqView(collections.abc.Sequence):
    """A read-only Sequence view of a caller-owned list: a legal array argument (an iterable of elements) that is
    neither a list nor a tuple; the caller can still change the list behind it."""

    def __init__(self, lst):
        self._lst = lst

    def __getitem__(self, i):
        return self._lst[i]

    def __len__(self):
        return len(self._lst)


class Instance:
    """One instance under test plus the caller-side lists its arrays were built from."""

    def __init__(self, ld, ad, val, deserialized, container="list"):
        p = ld.program
        self.ld, self.ad, self.val = ld, ad, val
        self.container = container
        self.sources = {}
        obj = self._build(ld.cls, p.node, val)
        if deserialized:
            got = real_serialize(ld.cls, obj, False)
            if got[0] != "bytes":
                raise ValueError("base value does not serialize")
            R = loader.lib("eolib.data.eo_reader").EoReader
            obj = ld.cls.deserialize(R(got[1]))
            self.sources = {}
        self.obj = obj
        # the observable state is taken BEFORE the first serialization: serializing is not allowed to change it either
        before = self.snapshot()
        first = real_serialize(ld.cls, obj, False)
        if first[0] != "bytes":
            raise ValueError("instance does not serialize")
        self.first = first[1]
        self.snap = self.snapshot()
        self.changed_by_first_serialize = None
        if self.snap != before:
            self.changed_by_first_serialize = f"the first serialization changed the instance's observable state: {before[:300]} -> {self.snap[:300]}"
        # (no write() here: an instance's FIRST write belongs to the histories - into a shared writer that keeps growing -
        # and every operation of a history ends with the same state comparison)

    def _build(self, cls, unit, val):
        # like Adaptor.build but keeps the list objects handed to the top-level constructor
        obj = self.ad.build(cls, unit, val)
        kwargs = {}
        for ins in values._scope_nodes(unit):
            if ins.tag == "array" and ins.get("name") and val.get(ins.get("name")) is not None:
                kwargs[ins.get("name")] = None
        if not kwargs:
            return obj
        # rebuild with tracked lists
        full = {}
        for ins in values._scope_nodes(unit):
            name = ins.get("name")
            if ins.tag in ("field", "array") and name is not None:
                v = getattr(obj, name)
                if ins.tag == "array" and v is not None:
                    lst = list(v)
                    self.sources[name] = (lst, tuple(v))
                    full[name] = lst if self.container == "list" else SeqView(lst)
                else:
                    full[name] = v
            elif ins.tag == "switch":
                full[ins.get("field") + "_data"] = getattr(obj, ins.get("field") + "_data")
        return cls(**full)

    def snapshot(self):
        p = self.ld.program
        return repr(self.ad.observe(self.obj, self.ld.cls, p.node))

    def targets(self):
        return reachable(self.ad, self.obj, self.ld.cls, self.ld.program.node)


def menu(inst):
    ops = [("serialize",), ("deserialize_again", "longer"), ("deserialize_again", "prefix")]
    for label, o, _, _ in inst.targets():
        for name in public_names(o):
            for how in ("same", "other", "none"):
                ops.append(("setattr", label, name, how))
    for name in inst.sources:
        for how in ("append", "clear", "setitem"):
            ops.append(("mutate_source", name, how))
    for label, o, _, _ in inst.targets():
        for name in public_names(o):
            if isinstance(getattr(o, name), (bytearray, list, dict, set)):
                ops.append(("mutate_returned", label, name))
    return ops


def apply(inst, op):
    """-> description of a violation or None"""
    if op[0] in ("write_shared", "shared_add", "write_fresh"):
        # packets have a second serialization entry point, obj.write(writer): into a writer that is shared with other
        # writes (a batch), with data appended to that writer in between, and into fresh writers
        W = loader.lib("eolib.data.eo_writer").EoWriter
        if op[0] == "write_fresh":
            w = W()
        else:
            if getattr(inst, "shared", None) is None:
                inst.shared = W()
                inst.shared_model = b""
            w = inst.shared
        try:
            if op[0] == "shared_add":
                w.add_char(7)
                inst.shared_model += b"\x08"
                return None
            before = bytes(w.to_bytearray())
            inst.obj.write(w)
            after = bytes(w.to_bytearray())
        except Exception as e:  # noqa: BLE001
            return f"{op[0]} raised {type(e).__name__}: {e}"
        if after[: len(before)] != before or after[len(before):] != inst.first:
            return f"write() into a writer holding {before.hex() or 'nothing'} appended {after[len(before):].hex()} (writer now {after.hex()}), the first serialization was {inst.first.hex()}"
        if op[0] == "write_shared":
            if before != inst.shared_model:
                return f"the shared writer held {before.hex()} before this write, expected {inst.shared_model.hex()}"
            inst.shared_model += inst.first
    elif op[0] == "deserialize_again":
        # other instances of the same classes come and go: deserializing the class again (from the same bytes, from
        # nothing, from a prefix) must not touch an instance handed out earlier
        R = loader.lib("eolib.data.eo_reader").EoReader
        data = {"same": inst.first, "empty": b"", "prefix": inst.first[: max(0, len(inst.first) - 1)], "longer": inst.first + b"\x01\x02"}[op[1]]
        for _, o, c, _u in [("obj", inst.obj, inst.ld.cls, None)] + list(inst.targets()):
            try:
                c.deserialize(R(data))
            except Exception:  # noqa: BLE001 - what the other instance becomes is not judged here
                pass
    elif op[0] == "serialize":
        got = real_serialize(inst.ld.cls, inst.obj, False)
        if got[0] != "bytes" or got[1] != inst.first:
            shown = got[1].hex() if got[0] == "bytes" else got[1]
            return f"serialize now yields {shown}, the first serialization was {inst.first.hex()}"
    elif op[0] == "setattr":
        _, label, name, how = op
        target = next((o for l, o, _, _ in inst.targets() if l == label), None)
        if target is None:
            # the menu was computed on a probe instance; a deserialized instance of a wire-ambiguous spec can parse
            # differently once its strings carry another unique suffix: nothing to judge for this op
            raise _Skip()
        cur = getattr(target, name)
        new = cur if how == "same" else None if how == "none" else _other(cur)
        try:
            setattr(target, name, new)
        except AttributeError:
            pass
        except Exception as e:  # noqa: BLE001
            return f"setattr({label}, {name!r}) raised {type(e).__name__} instead of AttributeError"
        else:
            return f"setattr({label}, {name!r}, {how}) succeeded: the attribute is assignable"
    elif op[0] == "mutate_returned":
        # whatever a public property hands out must not be a live, mutable part of the instance
        _, label, name = op
        target = next((o for l, o, _, _ in inst.targets() if l == label), None)
        if target is None:
            raise _Skip()
        v = getattr(target, name)
        try:
            if isinstance(v, bytearray):
                v.extend(b"\x07")
            elif isinstance(v, list):
                v.append(v[0] if v else 0)
            elif isinstance(v, set):
                v.add(0)
            elif isinstance(v, dict):
                v["x"] = 0
        except Exception:  # noqa: BLE001
            pass
    elif op[1] == "*":
        # every tracked caller-side list at once
        for name in list(inst.sources):
            what = apply(inst, ("mutate_source", name, op[2]))
            if what:
                return what
        return None
    else:
        _, name, how = op
        lst, orig = inst.sources[name]
        if how == "append":
            lst.append(lst[0] if lst else 0)
        elif how == "clear":
            lst.clear()
        elif lst:
            lst[0] = lst[-1] if len(lst) > 1 and lst[-1] != lst[0] else None
        cur = getattr(inst.obj, name)
        if not isinstance(cur, tuple):
            return f"array field {name} is a {type(cur).__name__}, not a tuple"
        if cur != orig:
            return f"array field {name} changed to {cur!r} after the caller's list was mutated ({how})"
    for label, o, c, u in inst.targets():
        for ins in values._scope_nodes(u):
            if ins.tag == "array" and ins.get("name"):
                v = getattr(o, ins.get("name"))
                if v is not None and not isinstance(v, tuple):
                    return f"array field {label}.{ins.get('name')} is a {type(v).__name__}, not a tuple"
    if inst.snapshot() != inst.snap:
        return f"observable state changed after {op!r}"
    return None


def _other(v):
    if isinstance(v, bool):
        return not v
    if isinstance(v, int):
        return int(v) + 1
    if isinstance(v, str):
        return v + "x"
    if isinstance(v, tuple):
        return v + v[:1] if v else (0,)
    if isinstance(v, (bytes, bytearray)):
        return bytes(v) + b"x"
    return 0


_counter = [0]


class _Skip(Exception):
    pass


def run_history(ld, ad, val, deserialized, hist, container="list"):
    _counter[0] += 1
    val = uniquify(ld.program.node, ad.env, val, f"q{ld.program.pid}x{_counter[0]}")
    try:
        inst = Instance(ld, ad, val, deserialized, container)
    except loader.HarnessError:
        raise
    except Exception:  # noqa: BLE001 - an instance that cannot be built / serialized is C01's concern, not C19's
        return "skip"
    if inst.changed_by_first_serialize:
        return f"step 0 ('serialize',): {inst.changed_by_first_serialize}"
    for i, op in enumerate(hist):
        try:
            what = apply(inst, tuple(op))
        except _Skip:
            return "skip"
        if what:
            return f"step {i} {tuple(op)!r}: {what}"
    return None


def uniquify(unit, env, val, token):
    """Give every unbounded top-level string that contains a y-diaeresis a program-unique suffix, so that a
    process-wide cache in the code under test cannot have seen it before (first use happens in THIS history)."""
    out = dict(val)
    for ins in values._scope_nodes(unit):
        name = ins.get("name")
        if ins.tag == "field" and name and ins.text is None and ins.get("length") is None:
            if resolve(ins.get("type"), env).kind == "string" and isinstance(out.get(name), str) and "ÿ" in out[name]:
                out[name] = out[name] + token
    return out


class Judge:
    def wants(self, info):
        return info.cls == "valid"

    def judge(self, ctx, ld, info):
        p = ld.program
        if ld.cls is None:
            ctx.counts["not_loadable"] += 1
            return
        env = p.env()
        ad = e3.adaptor_for(p)
        # thorough: triples (op, op, serialize) only for bodies of at most two items (the universe is 60x larger)
        depth = 3 if (ctx.tier != "quick" and info.ident.count(";") <= 1) else 2
        nvals = 0
        # cheap pass over EVERY value of the domain: arrays are tuples and do not alias the caller's lists
        for val in values.enumerate_values(p.node, env, cap=96 if ctx.tier == "quick" else 256):
            if ref_serialize(env, p.node, val, False)[0] != "bytes":
                continue
            for deserialized, container in ((False, "list"), (True, "list"), (False, "seqview")):
                for hist in ((("mutate_source", "*", "append"), ("serialize",)), (("deserialize_again", "empty"), ("deserialize_again", "same"), ("serialize",))):
                    if hist[0][0] == "deserialize_again" and container != "list":
                        continue
                    what = run_history(ld, ad, val, deserialized, hist, container)
                    if what == "skip":
                        continue
                    ctx.counts["evaluations"] += 1
                    if what:
                        how = ("deserialized" if deserialized else "constructed") + ("" if container == "list" else ", arrays given as a read-only Sequence view of the caller's lists")
                        ctx.violation(
                            f"mutable:{info.ident}:arrays:{what.split(':')[1][:40]}",
                            f"{info.host} [{info.ident}] value {val!r} ({how}): {what}",
                            {"tier": ctx.tier, "index": info.index, "value": _enc(val), "deserialized": deserialized, "container": container, "history": [list(o) for o in hist]},
                        )
                        return
        if _OPTPASS and info.index % 4 and not info.ident.startswith("corpus:"):
            return  # the -OO repetition (mc/cli.py) runs the full menu on the corpus and every fourth program
        for val in values.rich_values(p.node, env, n=(3 if ctx.tier == "quick" else 4)):
            if ref_serialize(env, p.node, val, False)[0] != "bytes":
                continue
            nvals += 1
            for deserialized in (False, True):
                try:
                    probe = Instance(ld, ad, val, deserialized)
                except ValueError:
                    continue
                except Exception as e:  # noqa: BLE001
                    ctx.counts["instance_errors"] += 1
                    continue
                ops = menu(probe)
                hists = [(o,) for o in ops]
                if depth >= 2:
                    hists += [(a, ("serialize",)) for a in ops if a[0] != "serialize"] + [(("serialize",), a) for a in ops if a[0] != "serialize"]
                    hists += [(a, b) for a in ops for b in ops if a[0] == "mutate_source" and b[0] == "mutate_source"]
                if depth >= 3:
                    hists += [(a, b, ("serialize",)) for a in ops for b in ops if a[0] != "serialize" and b[0] != "serialize"][:400]
                if p.kind == "packet" and hasattr(probe.obj, "write"):
                    wops = [("write_shared",), ("shared_add",), ("write_fresh",), ("serialize",)]
                    for d in range(1, 4 if ctx.tier == "quick" else 5):
                        hists += [h for h in itertools.product(wops, repeat=d) if any(o[0].startswith("write") for o in h)]
                for hist in hists:
                    what = run_history(ld, ad, val, deserialized, hist)
                    if what == "skip":
                        continue
                    ctx.counts["evaluations"] += 1
                    if what:
                        ctx.violation(
                            f"mutable:{info.ident}:{hist[-1][0] if 'serialize' not in what[:30] else 'serialize'}:{what.split(':')[1][:40]}",
                            f"{info.host} [{info.ident}] value {val!r} ({'deserialized' if deserialized else 'constructed'}): {what}",
                            {"tier": ctx.tier, "index": info.index, "value": _enc(val), "deserialized": deserialized, "history": [list(o) for o in hist]},
                        )
                        return
                ctx.counts["instances"] += 1
        ctx.sample({"program": info.ident, "values": nvals})


def run(tier, seed):
    counts, violations, samples = e3.run(tier, seed, Judge())
    coverage = {
        "evaluations": counts["evaluations"],
        "distinct_nontrivial": counts["evaluations"],
        "programs": counts["programs"],
        "instances": counts["instances"],
        "violations_total": counts["violations_total"],
        "exhaustive": True,
        "rule": "per valid program: EVERY value of the domain gets the history (append to every caller-side list, serialize) on a constructed and a deserialized instance; then the first and the 2/5 richest values (most y-diaeresis strings / array elements / present optionals) x {constructed, deserialized} instance x every history of length 1 over the "
        "menu (serialize; setattr of every public name of the instance and of every nested struct/case-data instance with "
        "same/other/None; append/clear/setitem on each caller-side list), every length-2 history pairing each op with "
        "serialize in both orders and every pair of caller-side mutations (+ triples ending in serialize, thorough); for packets every history of up to 3 (thorough 4) steps over {obj.write(shared writer), append to the shared writer, obj.write(fresh writer), serialize}; each "
        "(program, value, instance kind, history) is a distinct case run on a fresh instance",
        "samples": samples[:3],
    }
    return {"coverage": coverage, "violations": violations}


def _replay_single(case):
    loader.install_shims()
    ld, info = e3.replay_program(case["tier"], int(case["index"]))
    if ld.cls is None:
        return None
    what = run_history(ld, e3.adaptor_for(ld.program), _dec(case["value"]), bool(case["deserialized"]), [tuple(o) for o in case["history"]], case.get("container", "list"))
    return f"[{info.ident}] {what}\n{ld.program.node.xml()}" if what and what != "skip" else None


def replay(case):
    what = _replay_single(case)
    if what:
        return what
    if case.get("kind") in ("spelling",):
        return None
    what = e3.replay_whole(case["tier"], int(case["index"]), Judge())
    if what or not case.get("shard"):
        return what
    return e3.replay_shard(case["tier"], case["shard"], Judge())
