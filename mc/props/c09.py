"""C09 - EoWriter validates atomically and sanitises exactly when asked.

E1 (depth-bounded: the buffer grows, so there is no fixpoint): every history over the full menu up
to depth 2 and over a reduced menu up to depth 3/4, real EoWriter in lockstep with reference M4.
Mode toggles are ordinary menu entries, so invalid writes occur after valid ones and after toggles
in every order.
"""

import collections
import itertools

from .. import explorer, loader, par
from ..refmodels import P1, P2, P3, P4, RefWriter

ID = "C09"
LEVEL = "model_checking"
ASSUMPTIONS = [
    "reference M4: validate -> cp1252 image with '?' replacement -> y-diaeresis to 'y' if sanitising -> pad with 0xFF -> "
    "encode if encoded -> append; a rejected write leaves the state unchanged",
    "integers >= 0 and str arguments only; depth-bounded (no fixpoint exists for a growing buffer)",
]

NUMS = sorted(
    {0, 1, 252, 253, 254, 255, 256, 257, P2 - 1, P2, P2 + 1, P3 - 1, P3, P3 + 1, P4 - 1, P4, P4 + 1, P4 + P3 - 1, P4 + P3, 2**32, 10**12}
)
NUM_METHODS = ("add_byte", "add_char", "add_short", "add_three", "add_int")
STRS = ("", "a", "ÿ", "Ā", "~", "aÿ", "ÿa", "ÿÿ", "a~Ā", "abc", "€", "\U0001F600b")
RSTRS = ("", "a", "ÿ", "aÿ")


def full_menu():
    ops = [(m, n) for m in NUM_METHODS for n in NUMS]
    ops += [("add_bytes", b"")] + [("add_bytes", b"\x00\xff")]
    for s in STRS:
        ops += [("add_string", s), ("add_encoded_string", s)]
        for m in ("add_fixed_string", "add_fixed_encoded_string"):
            for L in range(0, 5):
                for p in (0, 1):
                    ops.append((m, s, L, p))
    ops += [("mode", 1), ("mode", 0)]
    return ops


def reduced_menu():
    ops = [("add_byte", 255), ("add_byte", 256), ("add_char", 252), ("add_char", 253), ("add_short", P2), ("add_three", P3 - 1),
           ("add_three", P4), ("add_int", P4 - 1), ("add_int", P4)]
    for s in RSTRS:
        ops += [("add_string", s), ("add_encoded_string", s)]
        for m in ("add_fixed_string", "add_fixed_encoded_string"):
            ops += [(m, s, 1, 0), (m, s, 2, 1), (m, s, 0, 1)]
    ops += [("mode", 1), ("mode", 0)]
    return ops


LADDER = (8, 16, 23, 24, 25, 32, 64, 128, 255, 256, 300, 1025, 65537)


def ladder_histories():
    """Behaviour must not depend on the data LENGTH: every string method x long strings with a y-diaeresis at the
    start / middle / end, both modes, exact and padded widths."""
    out = []
    for L in LADDER:
        for s in ("ÿ" + "a" * (L - 1), "a" * (L - 1) + "ÿ", "a" * (L // 2) + "ÿ" + "b" * (L - L // 2 - 1), "Ā" * L):
            for mode in (0, 1):
                pre = [("mode", mode)]
                out.append(pre + [("add_string", s)])
                out.append(pre + [("add_encoded_string", s)])
                for m in ("add_fixed_string", "add_fixed_encoded_string"):
                    out.append(pre + [(m, s, L, 0)])
                    out.append(pre + [(m, s, L, 1)])
                    out.append(pre + [(m, s, L + 3, 1)])
                    out.append(pre + [(m, s, L - 1, 1), ("add_char", 1)])
                    out.append(pre + [(m, s, L + 1, 0), ("add_char", 1)])
    # ... nor on the AMOUNT of padding: short strings padded to every ladder width (and one short of / beyond it)
    for W in LADDER:
        for s in ("", "ab", "aÿ"):
            for mode in (0, 1):
                for m in ("add_fixed_string", "add_fixed_encoded_string"):
                    out.append([("mode", mode), ("add_char", 7), (m, s, W, 1), ("add_char", 1)])
                    out.append([("mode", mode), (m, s, W + len(s), 1), (m, "x" * (W + 1), W, 1), ("add_short", 300)])
    return out


def _char_shard(job):
    """Every string of the character alphabet (mc/charsweep.py) through every string method in both modes, real writer
    against M4; compared on the final bytes, a mismatch is returned as an ordinary history."""
    from .. import charsweep

    loader.install_shims()
    W = loader.lib("eolib.data.eo_writer").EoWriter
    count, bad = 0, []
    for s in charsweep.strings(job):
        n = len(s)
        for mode in (0, 1):
            count += 1
            hist = [("mode", mode), ("add_string", s), ("add_encoded_string", s), ("add_fixed_string", s, n, 0), ("add_fixed_encoded_string", s, n + 2, 1)]
            ref = RefWriter()
            ref.san = bool(mode)
            ref.add_string(s); ref.add_encoded_string(s); ref.add_fixed_string(s, n, False); ref.add_fixed_encoded_string(s, n + 2, True)
            try:
                w = W()
                w.string_sanitization_mode = bool(mode)
                w.add_string(s); w.add_encoded_string(s); w.add_fixed_string(s, n, False); w.add_fixed_encoded_string(s, n + 2, True)
                same = bytes(w.to_bytearray()) == bytes(ref.buf)
            except Exception:  # noqa: BLE001 - the product replay below names the step
                same = False
            if not same and len(bad) < 3:
                what = explorer.replay(WriterProduct(), hist) or "final bytes differ from the reference although every step agreed"
                bad.append((hist, what))
    return count, bad


TWO_MENU = [("add_char", 252), ("add_char", 253), ("add_three", P4), ("add_string", "ÿ"), ("add_string", "a"), ("add_encoded_string", "ÿ"),
            ("add_fixed_string", "ÿ", 2, 1), ("add_fixed_string", "ab", 1, 0), ("add_fixed_encoded_string", "a", 1, 0), ("mode", 1), ("mode", 0),
            ("add_bytes", b"\x00\xff")]


def two_writer_history(hist):
    """hist: [(writer index, op)...] on two writers alive at the same time; each must behave as if alone."""
    prod = WriterProduct()
    sts = [prod.fresh(), prod.fresh()]
    for i, (w, op) in enumerate(hist):
        what = prod.apply(sts[int(w)], tuple(op))
        if what:
            return f"two writers, step {i} on writer {w}: {what}"
        other = prod.observe(sts[1 - int(w)])
        if other:
            return f"two writers, step {i} on writer {w} disturbed the OTHER writer: {other}"
    return None


def _two_shard(firsts):
    loader.install_shims()
    atoms = [(w, op) for w in (0, 1) for op in TWO_MENU]
    count, bad = 0, []
    for first in firsts:
        for rest in itertools.product(atoms, repeat=2):
            hist = [first] + list(rest)
            count += 1
            what = two_writer_history(hist)
            if what and len(bad) < 3:
                bad.append((hist, what))
    return count, bad


def argument_form_histories():
    """Legal but less common argument forms: truthy/falsy ints for `padded`, bools and IntEnum members as numbers,
    bytes-like arguments of add_bytes.  Each is paired with the canonical form the reference understands."""
    import enum

    class Small(enum.IntEnum):
        TWO = 2
        BIG = 253

    out = []
    for s_, L in (("a", 3), ("ÿ", 2), ("", 1), ("ab", 2)):
        for mode in (0, 1):
            for m in ("add_fixed_string", "add_fixed_encoded_string"):
                out.append(([("mode", mode), (m, s_, L, 1)], [("mode", mode), ("raw", m, (s_, L, 1))]))
                out.append(([("mode", mode), (m, s_ + "x" * (L - len(s_)), L, 0)], [("mode", mode), ("raw", m, (s_ + "x" * (L - len(s_)), L, 0))]))
    for m, v, canon in (("add_char", True, 1), ("add_char", Small.TWO, 2), ("add_char", Small.BIG, 253), ("add_short", Small.BIG, 253), ("add_byte", False, 0)):
        out.append(([(m, canon), ("add_char", 7)], [("raw", m, (v,)), ("add_char", 7)]))
    for b in (bytearray(b"\x01\xff"), memoryview(b"\x01\xff")):
        out.append(([("add_bytes", b"\x01\xff"), ("add_char", 7)], [("raw", "add_bytes", (b,)), ("add_char", 7)]))
    return out


def argument_forms_check():
    """The raw form applied to the real writer must behave exactly like the canonical form applied to the reference."""
    prod = WriterProduct()
    count, bad = 0, []
    for canon, raw in argument_form_histories():
        count += 1
        st = prod.fresh()
        for c_op, r_op in zip(canon, raw):
            if r_op[0] == "raw":
                try:
                    getattr(st["real"], r_op[1])(*r_op[2])
                    o_r = "ok"
                except Exception as e:  # noqa: BLE001
                    o_r = f"raised {type(e).__name__}"
                try:
                    call(st["model"], c_op)
                    o_m = "ok"
                except ValueError:
                    o_m = "raised ValueError"
                what = None if o_r == o_m else f"real {o_r}, expected {o_m}"
                what = what or prod.observe(st)
            else:
                what = prod.apply(st, c_op)
            if what:
                if len(bad) < 3:
                    shown = [(o[0], o[1], tuple(repr(a) for a in o[2])) if o[0] == "raw" else o for o in raw]
                    bad.append((canon, f"argument form {shown}: {what}"))
                break
    return count, bad


def call(w, op):
    name = op[0]
    if name in NUM_METHODS:
        return getattr(w, name)(op[1])
    if name == "add_bytes":
        return w.add_bytes(bytes(op[1]))
    if name in ("add_string", "add_encoded_string"):
        return getattr(w, name)(op[1])
    if name in ("add_fixed_string", "add_fixed_encoded_string"):
        return getattr(w, name)(op[1], op[2], bool(op[3]))
    raise loader.HarnessError(f"unknown op {op!r}")


class WriterProduct(explorer.Product):
    def __init__(self):
        self.cls = loader.lib("eolib.data.eo_writer").EoWriter

    def fresh(self):
        return {"real": self.cls(), "model": RefWriter()}

    def observe(self, st):
        real, model = st["real"], st["model"]
        try:
            arr = real.to_bytearray()
            got = (len(real), bytes(arr), bool(real.string_sanitization_mode))
            if isinstance(arr, bytearray):
                arr.append(0x55)  # a mutable result must be a copy, or later writes are not "appended to the contents"
                if bytes(real.to_bytearray()) != got[1]:
                    return "to_bytearray() exposes the writer's internal buffer"
        except Exception as e:  # noqa: BLE001
            return f"observation raised {type(e).__name__}: {e}"
        exp = (len(model.buf), bytes(model.buf), model.san)
        if got != exp:
            return f"(len, bytes, mode) real=({got[0]}, {got[1].hex()}, {got[2]}) expected=({exp[0]}, {exp[1].hex()}, {exp[2]})"
        return None

    def apply(self, st, op):
        real, model = st["real"], st["model"]
        if op[0] == "mode":
            try:
                real.string_sanitization_mode = bool(op[1])
            except Exception as e:  # noqa: BLE001
                return f"setting string_sanitization_mode raised {type(e).__name__}"
            model.san = bool(op[1])
            return self.observe(st)
        try:
            r = call(real, op)
            o_r = "ok" if r is None else f"returned {r!r}"
        except loader.HarnessError:
            raise
        except Exception as e:  # noqa: BLE001
            o_r = f"raised {type(e).__name__}"
        try:
            call(model, op)
            o_m = "ok"
        except ValueError:
            o_m = "raised ValueError"
        if o_r != o_m:
            return f"{op!r}: real {o_r}, expected {o_m}"
        bad = self.observe(st)
        if bad:
            return f"after {op!r} ({o_m}): {bad}"
        return None

    def key(self, st):
        return (explorer.snapshot(st["real"]), bytes(st["model"].buf), st["model"].san)

    def menu(self, st):
        return full_menu()


_RECENT = collections.deque(maxlen=64)  # survives across jobs of one pool worker


MENUS = {"full": full_menu, "red": reduced_menu}


def _run_histories(shard):
    firsts, menu_name, depth = shard
    rest_menu = MENUS[menu_name]()
    firsts = [tuple(tuple(o) for o in f) for f in firsts]
    loader.install_shims()
    prod = WriterProduct()
    count, trans, bad, states = 0, 0, [], set()
    prev = _RECENT
    for first in firsts:
        for rest in itertools.product(rest_menu, repeat=depth - len(first)):
            hist = list(first) + list(rest)
            st = prod.fresh()
            count += 1
            for i, op in enumerate(hist):
                what = prod.apply(st, op)
                trans += 1
                if what:
                    if len(bad) < 3:
                        bad.append(_localise(prod, prev, hist[: i + 1], what, shard))
                    break
            else:
                states.add((bytes(st["model"].buf), st["model"].san))
            prev.append(hist)
    return count, trans, bad, len(states)


def _localise(prod, prev, hist, what, shard):
    """Candidates for the replay file: the history alone, then the history preceded by the one that ran just
    before it in this process (for code under test that leaks state between writers)."""
    prev = list(prev)
    alts = [{"warmup": prev[-k:], "history": hist} for k in (1, 8, 64) if prev]
    alts.append({"job": {"firsts": [list(f) for f in shard[0]], "menu": shard[1], "depth": shard[2]}, "history": hist})
    return {"history": hist}, what, alts


def run(tier, seed):
    loader.install_shims()
    full, red = full_menu(), reduced_menu()
    W = par.WORKERS * 2
    jobs = []
    # depth 2 over the full menu (the first op shards the work)
    dfull = 2 if tier == "quick" else 3
    jobs += [([(o,) for o in c], "full", dfull) for c in par.chunks(full, W * 4)]
    # depth 3 (quick) / 4 (thorough) over the reduced menu
    d = 4 if tier == "quick" else 5
    jobs += [([(o, o2) for o in c for o2 in red], "red", d) for c in par.chunks(red, W * 2)]
    # full menu applied after a toggle pair (mode on then off, off then on) and after one valid write per method
    pre = [(("mode", 1), ("mode", 0)), (("mode", 0), ("mode", 1)), (("mode", 1), ("add_string", "ÿ")), (("add_fixed_string", "ÿ", 2, 1), ("mode", 1))]
    jobs += [([p], "full", 3) for p in pre]
    res = par.pmap(_run_histories, jobs)
    atoms = [(w, op) for w in (0, 1) for op in TWO_MENU]
    res_two = par.pmap(_two_shard, par.chunks(atoms, W))
    two_n = sum(r[0] for r in res_two)
    two_bad = [b for r in res_two for b in r[1]]
    form_n, form_bad = argument_forms_check()
    lad_bad, lad_n = [], 0
    prod = WriterProduct()
    for h in ladder_histories():
        lad_n += 1
        what = explorer.replay(prod, h)
        if what and len(lad_bad) < 3:
            lad_bad.append((h, what))
    hist = sum(r[0] for r in res) + lad_n
    trans = sum(r[1] for r in res)
    states = sum(r[3] for r in res)
    violations = []
    for _, _, bads, _ in res:
        for case, what, alts in bads:
            h = case["history"]
            last = h[-1]
            key = f"writer:{last[0]}:{what.split(':')[1][:50] if ':' in what else what[:50]}"
            violations.append({"key": key, "what": f"history {h}: {what}", "case": case, "alt_cases": alts})
    for h, what in lad_bad:
        violations.append({"key": f"writer-long:{h[-1][0]}:{what.split(':')[1][:40] if ':' in what else what[:40]}", "what": f"history {[(o[0],) + tuple(len(x) if isinstance(x, str) else x for x in o[1:]) for o in h]} (string lengths shown): {what}", "case": {"history": h}})
    for h, what in two_bad:
        violations.append({"key": "two-writers:" + what.split(": ", 1)[1][:50], "what": f"history {h}: {what}", "case": {"two": [[w, list(op)] for w, op in h]}})
    for canon, what in form_bad:
        violations.append({"key": "argument-form:" + what.split(": ")[-1][:50], "what": what, "case": {"forms": True}})
    from .. import charsweep

    res_chars = par.pmap(_char_shard, charsweep.jobs(tier))
    char_n = sum(r[0] for r in res_chars)
    for r in res_chars:
        for h, what in r[1]:
            cps = "+".join(f"U+{ord(c):04X}" for c in h[1][1])
            violations.append({"key": f"writer-char:{cps}", "what": f"string {cps} through every string method, mode {h[0][1]}: {what}", "case": {"history": h}})
    hist += two_n + form_n + char_n
    coverage = {
        "character_sweep_histories": char_n,
        "character_sweep_strings": charsweep.total(),
        "argument_form_histories": form_n,
        "two_writer_histories": two_n,
        "long_string_histories": lad_n,
        "states": states,
        "transitions": trans,
        "traces_validated_against_impl": hist,
        "evaluations": hist,
        "distinct_nontrivial": states,
        "full_menu_ops": len(full),
        "reduced_menu_ops": len(red),
        "depth_full": dfull,
        "depth_reduced": d,
        "exhaustive": True,
        "rule": "every history of depth_full over the full menu (5 numeric methods x 21 boundary values incl. every type's limit, "
        "12 strings x all string methods x lengths 0..4 x padded, raw bytes, mode toggles), every history of depth_reduced "
        "over the reduced menu, and the full menu after 4 two-step prefixes; plus every history of 3 steps over a 12-op menu on TWO writers alive at the same time (each step also re-observes the other writer); plus legal argument forms (padded=1/0, bool and IntEnum numbers, bytearray/memoryview for add_bytes); plus a length ladder (strings of 8..65537 characters with a y-diaeresis at start/middle/end through every string method, both modes, exact/padded/wrong widths; and short strings padded to widths 8..65537); plus the character sweep: every Unicode code point U+0000..U+10FFFF as a one-character string and every (windows-1252 character, combining mark U+0300..U+036F) pair, through all four string methods in both modes; after every step the real writer's "
        "(len, bytes, mode) and accept/ValueError outcome are compared with M4; states = distinct final (buffer, mode) pairs",
        "samples": [{"history": [list(map(_j, o)) for o in h]} for h in ([("mode", 1), ("add_fixed_string", "aÿ", 3, 1)], [("add_three", P4), ("add_char", 252)])],
    }
    from .. import kwforms

    for w in kwforms.check("writer"):
        violations.append({"key": "keyword-form:" + w.split(":")[0][:60], "what": w, "case": {"kwforms": True}})
    coverage["keyword_call_forms_checked"] = True
    return {"coverage": coverage, "violations": violations}


def _fix(op):
    return tuple(bytes(x) if isinstance(x, (bytes, bytearray)) else x for x in op)


def _j(x):
    return x.hex() if isinstance(x, bytes) else x


def replay(case):
    if isinstance(case, dict) and case.get("kwforms"):
        from .. import kwforms

        bad = kwforms.check("writer")
        return bad[0] if bad else None
    loader.install_shims()
    if case.get("forms"):
        _, bad = argument_forms_check()
        return bad[0][1] if bad else None
    if case.get("two"):
        return two_writer_history([(int(w), _fix(op)) for w, op in case["two"]])
    hist = [tuple(o) for o in case["history"]]
    if case.get("job"):
        # context-dependent violation: re-run the whole shard enumeration it was found in (fresh process)
        j = case["job"]
        _, _, bads, _ = _run_histories(([[_fix(o) for o in f] for f in j["firsts"]], j["menu"], int(j["depth"])))
        return bads[0][1] + " (found while re-running its shard)" if bads else None
    for h in case.get("warmup", []):
        explorer.replay(WriterProduct(), [tuple(o) for o in h])
    return explorer.replay(WriterProduct(), hist)
