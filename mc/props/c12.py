"""C12 - generated sequence starts are always transmittable and reconstructible.

E2: the random source is replaced by a scripted one whose every randrange(a, b) is a choice point
over the whole range; the complete outcome tree of each generate() is enumerated.
"""

import random as _random

from .. import choices, loader, par
from ..refmodels import P1, P2

ID = "C12"
LEVEL = "exploration"
ASSUMPTIONS = [
    "the only nondeterminism of generate() is the module-level random source (randrange/randint/choice are owned; "
    "any other use of `random` stops the check with HARNESS-ERROR)",
    "documented ranges: INIT/PING value 0..1757, ACCOUNT_REPLY value 0..240; INIT seq1, seq2 chars; PING short + char",
]


class Scripted:
    """Stands in for the `random` module inside eolib.packet.sequence_start."""

    def __init__(self):
        self.chooser = None

    def randrange(self, a, b=None, step=1):
        if b is None:
            a, b = 0, a
        if step != 1:
            raise loader.HarnessError("randrange with a step is not owned")
        if b <= a:
            raise ValueError(f"empty range for randrange() ({a}, {b}, {b - a})")
        return a + self.chooser.choose(b - a, f"randrange({a},{b})")

    def randint(self, a, b):
        return self.randrange(a, b + 1)

    def choice(self, seq):
        return seq[self.randrange(0, len(seq))]

    def __getattr__(self, name):
        raise loader.HarnessError(f"unowned randomness: random.{name}")


_script = Scripted()


def _install():
    m = loader.lib("eolib.packet.sequence_start")
    # the library looks `random` up through its module attribute; also cover `from random import x`
    if getattr(m, "random", None) is not None:
        m.random = _script
    for name in ("randrange", "randint", "choice"):
        if hasattr(m, name) and getattr(m, name) is getattr(_random, name, object()):
            setattr(m, name, getattr(_script, name))
    return m


KINDS = ("init", "ping", "account")


def judge(kind, m, gen_exc, g):
    """Oracle for one leaf. g is the generated object (or None if gen raised)."""
    if gen_exc is not None:
        return f"{kind} generate() raised {gen_exc}"
    v = g.value
    if kind == "account":
        if not isinstance(v, int) or not 0 <= v <= 240 or v > P1 - 1:
            return f"ACCOUNT_REPLY value {v} outside 0..240"
        try:
            back = m.AccountReplySequenceStart.from_value(v).value
        except Exception as e:  # noqa: BLE001
            return f"from_value({v}) raised {type(e).__name__}"
        return None if back == v else f"from_value({v}).value = {back}"
    s1, s2 = g.seq1, g.seq2
    if not (isinstance(v, int) and isinstance(s1, int) and isinstance(s2, int)):
        return f"{kind} non-integer components value={v!r} seq1={s1!r} seq2={s2!r}"
    if not 0 <= v <= 1757:
        return f"{kind} value {v} outside 0..1757"
    if kind == "init":
        if not (0 <= s1 <= P1 - 1 and 0 <= s2 <= P1 - 1):
            return f"INIT components seq1={s1} seq2={s2} (value {v}) do not both fit a char"
        ctor = m.InitSequenceStart.from_init_values
    else:
        if not (0 <= s1 <= P2 - 1 and 0 <= s2 <= P1 - 1):
            return f"PING components seq1={s1} seq2={s2} (value {v}) do not fit short + char"
        ctor = m.PingSequenceStart.from_ping_values
    try:
        r = ctor(s1, s2)
    except Exception as e:  # noqa: BLE001
        return f"{kind} from-values constructor raised {type(e).__name__} for seq1={s1} seq2={s2} (value {v})"
    if r.value != v or r.seq1 != s1 or r.seq2 != s2:
        return f"{kind} reconstruction of (seq1={s1}, seq2={s2}) gives value {r.value}, generated value was {v}"
    return None


def _generate(kind, m, chooser):
    _script.chooser = chooser
    gen = {"init": m.InitSequenceStart, "ping": m.PingSequenceStart, "account": m.AccountReplySequenceStart}[kind].generate
    try:
        return gen(), None
    except loader.HarnessError:
        raise
    except Exception as e:  # noqa: BLE001
        return None, f"{type(e).__name__}: {e}"


def _bystanders(m, v):
    """Other sequence starts with the same value, alive while the outcome is generated again: starts are values, not
    shared state - generating one must neither hand out nor disturb another."""
    out = []
    if v >= 0:
        s1 = (v + 13) // 7
        out.append(("init", m.InitSequenceStart.from_init_values(min(s1, 252), v + 13 - min(s1, 252) * 7)))
        out.append(("ping", m.PingSequenceStart.from_ping_values(v + 5, 5)))
        out.append(("account", m.AccountReplySequenceStart.from_value(v)))
        out.append(("zero", m.SequenceStart.zero()))
    return [(k, o, (o.value, getattr(o, "seq1", None), getattr(o, "seq2", None))) for k, o in out]


def run_one(kind, chooser):
    m = _install()
    g, exc = _generate(kind, m, chooser)
    what = judge(kind, m, exc, g)
    if what or g is None or not isinstance(g.value, int):
        return what
    # the same outcome once more while other starts of the same value are alive
    first = (g.value, getattr(g, "seq1", None), getattr(g, "seq2", None))
    try:
        others = _bystanders(m, g.value)
    except Exception as e:  # noqa: BLE001
        return f"with a generated {kind} start of value {g.value} alive, building another start of that value raised {type(e).__name__}: {e}"
    again = choices.Chooser(chooser.choices)
    g2, exc2 = _generate(kind, m, again)
    what = judge(kind, m, exc2, g2)
    if what:
        return "with other starts of the same value alive: " + what
    if (g2.value, getattr(g2, "seq1", None), getattr(g2, "seq2", None)) != first:
        return f"the same draws gave {first} alone and {(g2.value, getattr(g2, 'seq1', None), getattr(g2, 'seq2', None))} with other starts of the same value alive"
    if any(g2 is o for _, o, _ in others) or g2 is g:
        return f"{kind} generate() handed out an object that already existed (value {g2.value})"
    for k, o, snap in others + [(kind, g, first)]:
        if (o.value, getattr(o, "seq1", None), getattr(o, "seq2", None)) != snap:
            return f"generating a {kind} start changed an existing {k} start from {snap} to {(o.value, getattr(o, 'seq1', None), getattr(o, 'seq2', None))}"
    return None


def _shard(shard):
    kind, roots = shard
    loader.install_shims()
    leaves, bad, outcomes = 0, [], set()
    for chs, what in choices.explore(lambda c: run_one(kind, c), roots=roots):
        leaves += 1
        if what:
            if len(bad) < 3:
                bad.append((chs, what))
    return kind, leaves, bad


def run(tier, seed):
    loader.install_shims()
    _install()
    shards = []
    for kind in KINDS:
        # discover the fan-out of the first draw, then shard on it
        ch = choices.Chooser(())
        run_one(kind, ch)
        n0 = ch.trace[0][1] if ch.trace else 0
        if n0 == 0:
            shards.append((kind, [()]))
            continue
        first = [[i] for i in range(n0)]
        for c in par.chunks(first, par.WORKERS if kind != "account" else 1):
            shards.append((kind, c))
    res = par.pmap(_shard, shards)
    roots_of = {}
    for kind, roots in shards:
        for r in roots:
            roots_of[(kind, tuple(r[:1]))] = [list(x) for x in roots]
    per = {k: 0 for k in KINDS}
    violations = []
    for kind, leaves, bad in res:
        per[kind] += leaves
        for chs, what in bad:
            key = f"{kind}:{what.split(' seq1=')[0].split(' value ')[0][:60]}"
            violations.append({"key": key, "what": f"draws {chs}: {what}", "case": {"kind": kind, "choices": chs},
                               "alt_cases": [{"kind": kind, "choices": chs, "roots": roots_of[(kind, tuple(chs[:1]))]}]})
    total = sum(per.values())
    if per["init"] < 1000 or per["ping"] < 1000 or per["account"] < 10:
        raise loader.HarnessError(f"the random source of generate() is not owned by the harness (outcome trees: {per})")
    # two sample leaves written out
    m = _install()
    samples = []
    for kind, pref in (("init", [240, 0]), ("ping", [1756, 251]), ("account", [239])):
        ch = choices.Chooser(pref)
        _script.chooser = ch
        g, exc = _generate(kind, m, ch)
        if g is None:
            samples.append({"kind": kind, "draws": ch.choices, "raised": exc})
            continue
        samples.append({"kind": kind, "draws": ch.choices, "value": g.value, "seq1": getattr(g, "seq1", None), "seq2": getattr(g, "seq2", None)})
    coverage = {
        "evaluations": total,
        "distinct_nontrivial": total,
        "outcomes": per,
        "exhaustive": True,
        "rule": "every leaf of the choice tree of each generate(): each randrange(a, b) call is a choice point over all of "
        "range(a, b); a leaf is one complete sequence of draw outcomes (distinct by construction); each leaf is checked "
        "for: no exception, documented value range, components fit their wire fields, from-values constructor "
        "reproduces value and components; then the same draws once more while starts of the same value from every class are alive (nothing handed out twice, nothing disturbed)",
        "samples": samples,
    }
    from .. import kwforms

    for w in kwforms.check("sequence"):
        violations.append({"key": "keyword-form:" + w.split(":")[0][:60], "what": w, "case": {"kwforms": True}})
    coverage["keyword_call_forms_checked"] = True
    return {"coverage": coverage, "violations": violations}


def replay(case):
    if isinstance(case, dict) and case.get("kwforms"):
        from .. import kwforms

        bad = kwforms.check("sequence")
        return bad[0] if bad else None
    loader.install_shims()
    if case.get("roots"):
        # context-dependent outcome (the code under test remembers earlier draws): re-run the whole shard in order
        _, _, bad = _shard((case["kind"], [list(r) for r in case["roots"]]))
        return f"draws {bad[0][0]}: {bad[0][1]} (found while re-running its shard of outcomes in order)" if bad else None
    ch = choices.Chooser(list(case["choices"]))
    return run_one(case["kind"], ch)
