"""E3 driver: bounded program x input enumeration shared by C01-C03, C15, C16, C19.

programs(tier)      -> the program universe of a tier (bodies of the grammar + corpus), each classified by M9
run(tier, judge)    -> shards the programs over the pool; every shard generates batches with the REAL
                       generator, imports the classes through the shim loader and calls
                       judge(ctx, loaded, info) for every program, collecting counts and violations.
"""

import collections
import os

from . import genpipe, loader, par, specs, values, wellformed

BATCH = 120

PRELUDE_MODULES = {
    n.get("name"): "eolib.protocol._generated.net." + genpipe.snake(n.get("name")) for n in specs.prelude(1)
}


class Info:
    """Static facts about one program."""

    __slots__ = ("index", "ident", "cls", "rule", "why", "host")

    def __init__(self, index, ident, cls, rule, why, host):
        self.index = index
        self.ident = ident
        self.cls = cls  # valid | invalid | unspecified
        self.rule = rule
        self.why = why
        self.host = host


def universe(tier):
    """-> list of (ident, body instructions builder, host) in a deterministic order."""
    out = []
    shapes = specs.grammar(tier)
    for s in shapes:
        out.append((s.ident(), s, "struct:net"))
    # every body of cost <= 1 additionally in the other hosts
    for s in shapes:
        if s.cost() <= 1:
            for host in ("struct:pub", "packet:net/client", "packet:net/server", "struct:map"):
                out.append((s.ident(), s, host))
    # cost-2 bodies alternate over the packet hosts as well (every second one), so packets see composition
    for i, s in enumerate(shapes):
        if s.cost() == 2 and i % 2 == 0:
            out.append((s.ident(), s, "packet:net/client" if i % 4 == 0 else "packet:net/server"))
    from . import corpus

    for ident, node, host, extra in corpus.programs():
        out.append((ident, (node, extra), host))
    return out


def make_program(index, entry, slot=0):
    ident, shape, host = entry
    kind, file = host.split(":")
    if isinstance(shape, tuple):
        body, extra = shape
        body = [k.copy() for k in body]
    else:
        body, extra = shape.build(), []
    p = genpipe.Program(index, kind, body, file=file, extra=extra, meta={"ident": ident, "host": host}, slot=slot)
    env = p.env()
    cls, rule, why = wellformed.classify_unit(p.node, env)
    return p, Info(index, ident, cls, rule, why, host)


class Ctx:
    def __init__(self, tier, seed):
        self.tier = tier
        self.seed = seed
        self.counts = collections.Counter()
        self.violations = []
        self.samples = []

    def violation(self, key, what, case):
        self.counts["violations_total"] += 1
        if len(self.violations) < 40 and not any(v["key"] == key for v in self.violations):
            self.violations.append({"key": key, "what": what, "case": case})

    def sample(self, s, limit=3):
        if len(self.samples) < limit:
            self.samples.append(s)


def adaptor_for(program):
    mods = dict(PRELUDE_MODULES)
    for n in program.extra:
        mods[n.get("name")] = "eolib.protocol._generated." + genpipe.SUBPKG[program.file] + "." + genpipe.snake(n.get("name"))
    return values.Adaptor(program.env(), mods)


OPTPASS = bool(os.environ.get("VERIF_OPTPASS"))
_JUDGE = None
_TIER = None
_SEED = 0
_UNIVERSE = None


def _shard(indices):
    loader.install_shims()
    ctx = Ctx(_TIER, _SEED)
    for a in range(0, len(indices), BATCH):
        chunk = indices[a : a + BATCH]
        progs, infos = [], []
        for slot, i in enumerate(chunk):
            p, info = make_program(i, _UNIVERSE[i], slot)
            progs.append(p)
            infos.append(info)
        wanted = [(p, i) for p, i in zip(progs, infos) if _JUDGE.wants(i)]
        if OPTPASS:
            # the -OO repetition of the quick tier (mc/cli.py) takes the corpus and every second program of the universe
            wanted = [(p, i) for p, i in wanted if i.index % 2 == 0 or i.ident.startswith("corpus:")]
        if not wanted:
            continue
        loaded = genpipe.load_batch([p for p, _ in wanted])
        for ld, (_, info) in zip(loaded, wanted):
            ctx.counts["programs"] += 1
            ctx.counts["programs_" + info.cls] += 1
            try:
                _JUDGE.judge(ctx, ld, info)
            except loader.HarnessError:
                raise
    for v in ctx.violations:
        v.setdefault("alt_cases", []).append(dict(v["case"], shard=list(indices)))
    return dict(ctx.counts), ctx.violations, ctx.samples


def run(tier, seed, judge, select=None):
    """judge: object with wants(info) and judge(ctx, loaded, info).  select: optional list of universe indices."""
    global _JUDGE, _TIER, _SEED, _UNIVERSE
    loader.install_shims()
    _JUDGE, _TIER, _SEED = judge, tier, seed
    _UNIVERSE = universe(tier)
    idx = list(range(len(_UNIVERSE))) if select is None else list(select)
    # interleave so that every shard sees a similar mix
    n = par.WORKERS * 3
    shards = [idx[i::n] for i in range(n)]
    res = par.pmap(_shard, [s for s in shards if s])
    counts = collections.Counter()
    violations, samples = [], []
    for c, v, s in res:
        counts.update(c)
        violations.extend(v)
        samples.extend(s)
    return counts, violations, samples


def replay_program(tier, index):
    """Rebuild and load one program of the universe (for replay files)."""
    global _UNIVERSE
    loader.install_shims()
    uni = universe(tier)
    p, info = make_program(index, uni[index])
    (ld,) = genpipe.load_batch([p])
    return ld, info


def replay_whole(tier, index, judge):
    """Context fallback for replay files: re-run the judge on the whole program (every value in
    enumeration order) in this fresh process; for code under test that leaks state between calls."""
    ld, info = replay_program(tier, index)
    ctx = Ctx(tier, 0)
    judge.judge(ctx, ld, info)
    if ctx.violations:
        return ctx.violations[0]["what"] + " (found while re-running every case of this program in order)"
    return None


def replay_shard(tier, indices, judge):
    """Last-resort context for replay files: re-run the whole shard the violation was found in."""
    global _JUDGE, _TIER, _SEED, _UNIVERSE
    _JUDGE, _TIER, _SEED = judge, tier, 0
    _UNIVERSE = universe(tier)
    _, violations, _ = _shard([int(i) for i in indices])
    if violations:
        return violations[0]["what"] + " (found while re-running its whole shard in order: state leaks between programs)"
    return None
