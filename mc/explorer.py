"""E1: explicit-state product explorer (real object x reference model).

A state is identified by the event history that reaches it.  Every transition is executed on a
fresh pair rebuilt by replaying the history (live objects are not copied).  States are
deduplicated by (generic snapshot of the real object, model state); because the real state is
part of the key, hidden extra state in the implementation produces more product states rather
than being merged away.
"""

from collections import deque


def snapshot(obj, depth=0):
    """Generic, attribute-name-free snapshot of a Python object's state."""
    if isinstance(obj, (int, str, bytes, bool, float)) or obj is None:
        return obj
    if isinstance(obj, (bytearray, memoryview)):
        return bytes(obj)
    if isinstance(obj, (list, tuple)):
        return tuple(snapshot(x, depth + 1) for x in obj)
    if isinstance(obj, dict):
        return tuple(sorted((repr(k), snapshot(v, depth + 1)) for k, v in obj.items()))
    if depth > 4:
        return repr(type(obj))
    d = getattr(obj, "__dict__", None)
    if d is None:
        slots = getattr(type(obj), "__slots__", ())
        d = {s: getattr(obj, s) for s in slots if hasattr(obj, s)}
    return (type(obj).__name__,) + tuple(sorted((k, snapshot(v, depth + 1)) for k, v in d.items()))


class Product:
    """Interface the explorer drives.  Ops must be JSON-able (they go into replay files)."""

    def fresh(self):
        """-> opaque pair/state object"""
        raise NotImplementedError

    def menu(self, st):
        raise NotImplementedError

    def apply(self, st, op):
        """Apply op to both sides; return None if they agree and all invariants hold, else a
        description of the disagreement."""
        raise NotImplementedError

    def key(self, st):
        raise NotImplementedError


class Stats:
    def __init__(self):
        self.states = 0
        self.transitions = 0
        self.max_depth = 0
        self.fixpoint = True
        self.capped = False
        self.violations = []  # (history, what)
        self.sample_histories = []


def explore(product, max_depth=None, max_violations=5, stats=None, keep_samples=2, max_states=None):
    """Breadth-first search to a fixpoint (or to max_depth).  The search stops as soon as max_violations disagreements
    are recorded, and - for an implementation whose hidden state never closes - at max_states product states (then
    Stats.fixpoint is False and Stats.capped True: the caller reports a bounded search, not a fixpoint)."""
    st = stats or Stats()
    root = product.fresh()
    seen = {product.key(root)}
    frontier = deque([()])
    st.states += 1
    while frontier:
        hist = frontier.popleft()
        base = product.fresh()
        for op in hist:
            product.apply(base, op)
        ops = product.menu(base)
        for op in ops:
            cur = product.fresh()
            for h in hist:
                product.apply(cur, h)
            bad = product.apply(cur, op)
            st.transitions += 1
            if bad:
                if len(st.violations) < max_violations:
                    st.violations.append((list(hist) + [op], bad))
                if len(st.violations) >= max_violations:
                    st.fixpoint = False
                    return st
                continue  # do not explore beyond a disagreement
            k = product.key(cur)
            if k not in seen:
                seen.add(k)
                st.states += 1
                if max_states is not None and len(seen) >= max_states:
                    st.fixpoint = False
                    st.capped = True
                    return st
                depth = len(hist) + 1
                st.max_depth = max(st.max_depth, depth)
                if max_depth is None or depth < max_depth:
                    frontier.append(hist + (op,))
                else:
                    st.fixpoint = False
                if len(st.sample_histories) < keep_samples or depth > len(st.sample_histories[-1]):
                    st.sample_histories = (st.sample_histories + [list(hist) + [op]])[-keep_samples:]
    return st


def replay(product, history):
    """Plain sequential replay of one history (no explorer involved). -> description or None"""
    cur = product.fresh()
    for i, op in enumerate(history):
        op = tuple(op) if isinstance(op, list) else op
        bad = product.apply(cur, op)
        if bad:
            return f"step {i} {op!r}: {bad}"
    return None
