"""E6: stateless exploration of thread schedules on the real code (iterative context bounding).

A handful of thread bodies - each a few calls into the code under test - run as real Python threads, but one at a
time: a baton (one semaphore per thread) is handed over only at scheduling points, and a scheduling point is every
*line* event of a frame whose code lives in the repository (sys.settrace), so a context switch can be placed between
any two lines of the library that a thread executes.  The explorer enumerates every schedule with at most `bound`
preemptions (a switch away from a thread that could have continued), replaying a recorded prefix and then always
continuing the running thread (CHESS-style); switches at thread end or at a blocked lock are free.

Locks: `threading.Lock` / `RLock` are replaced by cooperative versions while an exploration runs, so code under test
that protects its state properly blocks *in the scheduler* (a free switch) instead of hanging the baton; "every thread
blocked" is reported as a deadlock.  What the explorer does not own: C-level atomicity inside a single line (the GIL
makes one bytecode atomic, a line is coarser - a race inside one line is invisible), and threads the code under test
starts itself.
"""

import importlib
import sys
import threading

from . import loader

MAX_POINTS = 200_000
_active = None  # the Execution whose threads are running (one at a time per process)
_tls = threading.local()
_RealLock, _RealRLock = threading.Lock, threading.RLock


class Deadlock(Exception):
    pass


class CoopLock:
    """Drop-in for threading.Lock under the explorer: blocking hands the baton to another thread."""

    _reentrant = False

    def __init__(self):
        self._owner = None
        self._count = 0

    def _me(self):
        return getattr(_tls, "tid", None) if _active is not None else None

    def acquire(self, blocking=True, timeout=-1):
        me = self._me()
        while self._count and not (self._reentrant and self._owner == me and me is not None):
            if not blocking or me is None:
                if me is None and blocking:
                    raise loader.HarnessError("a cooperative lock is contended outside an exploration")
                return False
            _active.block(me, self)
        self._owner = me
        self._count += 1
        return True

    def release(self):
        if not self._count:
            raise RuntimeError("release unlocked lock")
        self._count -= 1
        if not self._count:
            self._owner = None
            if _active is not None:
                _active.unblock(self)

    def locked(self):
        return bool(self._count)

    __enter__ = acquire

    def __exit__(self, *a):
        self.release()


class CoopRLock(CoopLock):
    _reentrant = True


class _real_locks:
    """Temporarily the real lock factories (for threading's own objects: Thread, Semaphore, Condition, Event)."""

    def __enter__(self):
        self.was = threading.Lock, threading.RLock
        threading.Lock, threading.RLock = _RealLock, _RealRLock

    def __exit__(self, *a):
        threading.Lock, threading.RLock = self.was


class Execution:
    def __init__(self, bodies, prefix, roots):
        self.bodies = bodies
        self.n = len(bodies)
        self.prefix = list(prefix)
        self.roots = tuple(roots)
        self.choices = []
        self.points = []  # (n_enabled, running_enabled, preemptions so far)
        self.preemptions = 0
        # the scheduler's own primitives are built on REAL locks, whatever factories are installed at the moment
        with _real_locks():
            self.sems = [threading.Semaphore(0) for _ in bodies]
            self.finished = threading.Semaphore(0)
        self.done = [False] * self.n
        self.waiting = {}  # tid -> lock
        self.results = [None] * self.n
        self.error = None

    # ---- scheduling
    def _choose(self, current, current_enabled):
        enabled = ([current] if current_enabled else []) + [t for t in range(self.n) if t != current and not self.done[t] and t not in self.waiting]
        if not enabled:
            if all(self.done):
                return None
            raise Deadlock(f"threads {sorted(self.waiting)} wait for locks nobody will release")
        i = len(self.choices)
        idx = self.prefix[i] if i < len(self.prefix) else 0
        if idx >= len(enabled):
            raise loader.HarnessError(f"schedule replay diverged at point {i}: choice {idx} of {len(enabled)} enabled threads")
        self.points.append((len(enabled), bool(current_enabled), self.preemptions))
        self.choices.append(idx)
        if current_enabled and idx != 0:
            self.preemptions += 1
        if len(self.choices) > MAX_POINTS:
            raise loader.HarnessError("thread exploration: more than MAX_POINTS scheduling points in one execution")
        return enabled[idx]

    def _switch(self, me, nxt):
        if nxt != me:
            self.sems[nxt].release()
            self.sems[me].acquire()

    def point(self, me):
        if self.error is not None:
            raise SystemExit
        try:
            nxt = self._choose(me, True)
        except BaseException as e:  # noqa: BLE001
            self._fail(e)
            raise SystemExit
        self._switch(me, nxt)

    def block(self, me, lock):
        self.waiting[me] = lock
        try:
            nxt = self._choose(me, False)
        except BaseException as e:  # noqa: BLE001
            self._fail(e)
            raise SystemExit
        self._switch(me, nxt)

    def unblock(self, lock):
        for t in [t for t, l in self.waiting.items() if l is lock]:
            del self.waiting[t]

    def _fail(self, e):
        if self.error is None:
            self.error = e
        self.finished.release()

    # ---- threads
    def _tracer(self, me):
        def local(frame, event, arg):
            if event == "line":
                self.point(me)
            return local

        def glob(frame, event, arg):
            if event == "call" and frame.f_code.co_filename.startswith(self.roots):
                return local
            return None

        return glob

    def _run(self, me):
        self.sems[me].acquire()
        _tls.tid = me
        if self.error is None:
            sys.settrace(self._tracer(me))
            try:
                self.results[me] = ("ok", self.bodies[me]())
            except SystemExit:
                self.results[me] = ("aborted",)
            except BaseException as e:  # noqa: BLE001 - what the code under test raises is an observation
                self.results[me] = ("raised", f"{type(e).__name__}: {e}")
            finally:
                sys.settrace(None)
        self.done[me] = True
        if self.error is not None:
            return
        try:
            nxt = self._choose(me, False)
        except BaseException as e:  # noqa: BLE001
            self._fail(e)
            return
        if nxt is None:
            self.finished.release()
        else:
            self.sems[nxt].release()

    def run(self):
        global _active
        if _active is not None:
            raise loader.HarnessError("nested thread explorations")
        _active = self
        # threads are created and started (they wait for the baton) with the REAL lock factories in place: threading's own
        # machinery must keep real locks.  Everything else - the reload of the modules under test in setup() included -
        # happens with the cooperative factories (see coop_locks()).
        with _real_locks():
            threads = [threading.Thread(target=self._run, args=(t,), daemon=True) for t in range(self.n)]
            for t in threads:
                t.start()
        try:
            try:
                first = self._choose(None, False)
            except BaseException as e:  # noqa: BLE001
                self._fail(e)
                first = None
            if first is not None:
                self.sems[first].release()
            if not self.finished.acquire(timeout=600):
                self.error = self.error or loader.HarnessError("thread exploration: an execution did not finish within 600 s (a real lock or blocking call inside the code under test?)")
        finally:
            if self.error is not None:
                # wake every thread so that it can leave (each sees self.error and exits)
                for s in self.sems:
                    s.release()
            for t in threads:
                # without an error every thread has passed its last scheduling decision and is about to return: wait for it
                # however loaded the machine is (a thread that outlives the execution would run unscheduled)
                t.join(timeout=5 if self.error is not None else None)
            _active = None
        if isinstance(self.error, Deadlock):
            return
        if self.error is not None:
            raise self.error


class coop_locks:
    """While active, `threading.Lock()` / `threading.RLock()` create cooperative locks: a lock the code under test makes at
    import time (the modules are reloaded inside this window) or later blocks in the scheduler, not in the kernel."""

    def __enter__(self):
        threading.Lock, threading.RLock = CoopLock, CoopRLock

    def __exit__(self, *a):
        threading.Lock, threading.RLock = _RealLock, _RealRLock


def explore(setup, bound=2, max_executions=50_000, thin=None):
    with coop_locks():
        return _explore(setup, bound, max_executions, thin)


def _explore(setup, bound, max_executions, thin=None):
    """setup() -> (bodies, judge): fresh state, thread bodies, judge(results, deadlock) -> description or None.
    -> dict(executions, max_points, violation=(schedule, description) or None, complete)"""
    roots = (loader.REPO, loader.scratch_root())  # library and generator code, and code the generator produced
    stack = [[]]
    n = maxp = 0
    thinned = False
    while stack:
        prefix = stack.pop()
        bodies, judge = setup()
        ex = Execution(bodies, prefix, roots)
        ex.run()
        n += 1
        maxp = max(maxp, len(ex.points))
        what = judge(ex.results, str(ex.error) if isinstance(ex.error, Deadlock) else None)
        if what:
            return {"executions": n, "max_points": maxp, "violation": (list(ex.choices), what), "complete": False}
        # an execution with very many scheduling points (a long loop in the code under test): only every k-th point gets
        # its alternatives, k chosen so that about `thin` of them do - reported as thinned, never as complete
        step = 1
        if thin and len(ex.points) > thin:
            step = -(-len(ex.points) // thin)
            thinned = True
        for i in range(len(prefix), len(ex.points)):
            if step > 1 and i % step:
                continue
            n_enabled, running_enabled, pre = ex.points[i]
            cost = pre + (1 if running_enabled else 0)
            if cost > bound:
                continue
            for alt in range(1, n_enabled):
                stack.append(ex.choices[:i] + [alt])
        if n >= max_executions:
            return {"executions": n, "max_points": maxp, "violation": None, "complete": False}
    return {"executions": n, "max_points": maxp, "violation": None, "complete": not thinned, "thinned": thinned}


def replay_schedule(setup, schedule):
    with coop_locks():
        return _replay_schedule(setup, schedule)


def _replay_schedule(setup, schedule):
    bodies, judge = setup()
    ex = Execution(bodies, schedule, (loader.REPO, loader.scratch_root()))
    ex.run()
    return judge(ex.results, str(ex.error) if isinstance(ex.error, Deadlock) else None)


# ---------------------------------------------------------------- convenience for "pure function" properties
def fresh(module_names):
    """Reload the named repository modules (first use of lazily built module state happens inside the execution)."""
    mods = []
    for name in module_names:
        mods.append(importlib.reload(loader.lib(name)))
    return mods


def alone(body):
    """What a thread body yields when it runs alone (same shape as Execution.results entries); what the code under test
    raises is an observation here too."""
    try:
        return ("ok", body())
    except BaseException as e:  # noqa: BLE001
        return ("raised", f"{type(e).__name__}: {e}")


class Alone:
    """Marks an expected entry that is already a full result tuple (from alone())."""

    def __init__(self, result):
        self.result = result


def judge_values(expected, after=None):
    """Every thread must return its expected value; `after()` is a sequential post-check on the state left behind."""

    def judge(results, deadlock):
        if deadlock:
            return f"deadlock: {deadlock}"
        for i, (r, e) in enumerate(zip(results, expected)):
            want = e.result if isinstance(e, Alone) else ("ok", e)
            if r != want:
                return f"thread {i} got {r!r}, alone it returns {want!r}"
        if after is not None:
            try:
                return after()
            except Exception as e:  # noqa: BLE001 - the code under test raising in the sequential post-check
                return f"after both threads finished, a sequential call raised {type(e).__name__}: {e}"
        return None

    return judge


def _trim(schedule):
    """A schedule is its choice list up to the last switch (everything after it is 'continue')."""
    last = max((i for i, c in enumerate(schedule) if c), default=-1)
    return schedule[: last + 1]


def _one_case(job):
    pid, label, tier = job
    from . import threadcases

    loader.install_shims()
    if __import__("os").environ.get("VERIF_E6_DEBUG"):
        import faulthandler

        faulthandler.dump_traceback_later(int(__import__("os").environ["VERIF_E6_DEBUG"]), exit=True)
    setup = threadcases.cases(pid)[label]
    # iterate the bound (fewest preemptions first): 1 always; 2 when the executions are short enough for the tier's
    # budget (about points^2 / 2 schedules); 3 in the thorough tier for very short ones
    try:
        r = explore(setup, 1, thin=400 if tier == "quick" else 4000)
    except loader.HarnessError:
        raise
    except Exception as e:  # noqa: BLE001
        # the code under test raised while the case was being set up (outside the threads): nothing to schedule; the
        # sequential part of the check owns that failure
        return label, {"executions": 0, "max_points": 0, "violation": None, "complete": False, "bound": 0, "setup_failed": f"{type(e).__name__}: {e}"}
    r["bound"] = 1
    total = r["executions"]
    for bound, limit in ((2, 90 if tier == "quick" else 260), (3, 0 if tier == "quick" else 45)):
        if r["violation"] or not r["complete"] or r["max_points"] > limit:
            break
        r = explore(setup, bound)
        r["bound"] = bound
        total += r["executions"]
    r["executions"] = total
    return label, r


def run_cases(pid, tier="quick"):
    """Explore every thread case registered for a property (one forked process per case).
    -> (coverage dict, violations list in the property-module format)"""
    from . import par, threadcases

    labels = list(threadcases.cases(pid))
    bound = "per case, see preemption_bounds"
    cov = {"thread_cases": len(labels), "schedules": 0, "preemption_bound": bound, "preemption_bounds": {}, "max_scheduling_points": 0, "all_complete": True,
           "rule": "per case two real threads, each a few calls into the code under test on its own objects, module state reloaded per execution; every schedule with at most preemption_bounds[case] preemptions at line granularity (bound 1 always, 2 when an execution has few enough scheduling points for the tier, 3 in the thorough tier for the shortest); each thread must get what it gets alone and a sequential call afterwards must still be right"}
    violations = []
    for label, r in par.pmap(_one_case, [(pid, l, tier) for l in labels]):
        cov["schedules"] += r["executions"]
        cov["preemption_bounds"][label] = r["bound"]
        cov["max_scheduling_points"] = max(cov["max_scheduling_points"], r["max_points"])
        cov["all_complete"] &= r["complete"] or r["violation"] is not None
        if r.get("setup_failed"):
            cov.setdefault("cases_not_set_up", {})[label] = r["setup_failed"][:200]
        if r.get("thinned"):
            cov.setdefault("thinned_cases", []).append(label)
        if r["violation"]:
            sched, what = r["violation"]
            sched = _trim(sched)
            at = [i for i, c in enumerate(sched) if c]
            violations.append({"key": f"threads:{label}", "what": f"two threads ({label}), context switches at scheduling points {at} of the schedule: {what}",
                               "case": {"threads": label, "schedule": sched}})
    return cov, violations


def replay_case(pid, case):
    from . import threadcases

    return replay_schedule(threadcases.cases(pid)[case["threads"]], [int(c) for c in case["schedule"]])
