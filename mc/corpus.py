"""Hand-written mini eo-protocol corpus: shapes modelled on the packets the CHANGELOG names.

It supplies depth the node budget of the enumerated grammar does not: nested switches, chunked
structs inside non-chunked packets and the reverse, trailing-delimiter arrays, dummy next to a
field, pub-style records with padded strings, map-style fixed arrays, enum overrides.
Each entry: (ident, body instructions, host, extra type nodes).
"""

from .specs import array, brk, case, chunked, dummy, enum, field, length, struct, switch


def programs():
    out = []

    def add(ident, body, host="struct:net", extra=()):
        out.append(("corpus:" + ident, body, host, list(extra)))

    reply = enum("ReplyCode", "short", [("Ok", 1), ("Busy", 2), ("Banned", 3)])
    coords = struct("Coords", [field("x", "char"), field("y", "char")])
    item = struct("Item", [field("id", "short"), field("amount", "three")])
    named = struct("NamedThing", [field("name", "string")])
    rec = struct("Rec", [length("name_len", "char"), field("name", "string", length="name_len"), field("kind", "E1"), field("hp", "three")])
    trade = struct("TradeItems", [chunked([field("player_id", "short"), array("items", "Item"), brk()])])

    # WelcomeReply-like: chunked part followed by non-chunked tail
    add("welcome", [
        field("code", "ReplyCode"),
        switch("code", [
            case("Ok", [field("session", "short"), chunked([field("name", "string"), brk(), field("title", "string"), brk(), array("spells", "Item"), brk()]), field("tail", "char")]),
            case("Busy", []),
            case(None, [field("reason", "string")], default=True),
        ]),
    ], "packet:net/server", [reply, item])
    # init-like with hardcoded string and nested switch on a char
    add("init", [
        field("kind", "char"),
        switch("kind", [
            case("1", [field(None, "string", "OK"), field("seq1", "char"), field("seq2", "char"),
                       field("sub", "char"), switch("sub", [case("2", [field("v", "int")]), case("3", [])])]),
            case("2", [field("why", "E1:short")]),
        ]),
    ], "packet:net/server")
    # chest-close-like: dummy next to a field (dummy not written because the field was)
    add("dummy-after-field", [field("a", "char", optional="true"), dummy("short", "0")])
    add("dummy-alone", [dummy("string", "N")], "packet:net/client")
    # trailing delimiter arrays, with and without, counted and uncounted
    add("players", [chunked([length("n", "char"), brk(), array("players", "NamedThing", length="n", delimited="true"), field("done", "char")])],
        "packet:net/server", [named])
    add("players-nt", [chunked([length("n", "char"), array("players", "NamedThing", length="n", delimited="true", trailing_delimiter="false")])],
        "packet:net/server", [named])
    add("trade", [chunked([array("trades", "TradeItems", delimited="true", trailing_delimiter="false")])], "packet:net/server", [item, trade])
    # chunked struct nested in a non-chunked packet and the reverse
    add("k-in-plain", [field("a", "string", length="2"), field("k", "K"), field("b", "string", length="2")])
    add("plain-in-chunked", [chunked([field("u1", "V"), field("s", "string"), brk(), field("p", "P"), field("t", "string")])])
    add("chunked-twice", [chunked([field("a", "string"), brk()]), field("mid", "string", length="1"), chunked([field("b", "string")])])
    # pub-style record: padded strings, fixed arrays, length-prefixed name
    add("pub-record", [length("name_len", "char"), field("name", "string", length="name_len"), field("gfx", "short"), field("kind", "E1"),
                        field("tag", "string", length="4", padded="true"), array("stats", "short", length="3")], "struct:pub")
    add("pub-file", [field(None, "string", "EIF", length="3"), array("rid", "short", length="2"), length("count", "char"), field("ver", "char"),
                      array("records", "Rec", length="count")], "struct:pub", [rec])
    # map-style fixed arrays of structs and raw bytes
    add("map-rows", [field("w", "char"), array("corners", "Coords", length="4"), array("rest", "Coords")], "struct:map", [coords])
    add("map-blob", [field("kind", "E3"), field("payload", "blob")], "struct:map")
    # optional tail after a switch, optional chain
    add("opt-chain", [field("a", "char"), field("b", "short", optional="true"), field("c", "E1", optional="true"), field("d", "string", optional="true")])
    add("case-own-scope", [field("k", "E1"), field("x", "char"), switch("k", [case("A", [field("x", "short"), field("y", "char")]), case("B", [field("x", "string")])])])
    add("bool-override", [field("flag", "bool"), field("wide", "bool:three"), field("e", "E2:int"), array("flags", "bool", length="2")])
    add("short-count", [length("n", "short"), array("xs", "char", length="n")])
    add("len-offset-array", [length("n", "char", offset="1"), array("xs", "short", length="n"), field("after", "char")])
    add("encoded", [chunked([field("a", "encoded_string"), brk(), field("b", "encoded_string", length="4", padded="true"), field("c", "encoded_string")])])
    add("enum-array-switch", [array("es", "E1", length="2"), field("k", "E2"), switch("k", [case("Big", [array("more", "E3")]), case("7", [field("z", "byte")])])])
    # order / number of declarations
    late = struct("LateThing", [field("v", "short"), field("w", "string", length="2", padded="true")])
    late_enum = enum("LateKind", "char", [("None", 0), ("Some", 1), ("Many", 2)])
    add("use-before-def", [field("k", "LateKind"), field("t", "LateThing"), array("ts", "LateThing", length="2"),
                           switch("k", [case("Some", [field("one", "LateThing")]), case("Many", [array("many", "LateThing")])])], "struct:net", [late, late_enum])
    add("many-cases", [field("k", "char"), switch("k", [case("1", [field("a", "char")]), case("2", []), case("3", [field("c", "string")]),
                                                          case("4", [field("d", "P")]), case("5", [field("e", "short", optional="true")]),
                                                          case(None, [field("z", "three")], default=True)])])
    add("many-fields", [field(f"f{chr(97 + i)}", t) for i, t in enumerate(["char", "short", "three", "int", "byte", "bool", "E1", "E2", "E3", "P", "V", "O", "char", "short"])]
        + [field("tail", "string")])
    # a scope spans its chunked sections: fields declared inside <chunked> are used outside it and the reverse
    add("switch-field-in-chunked", [chunked([field("k", "char"), field("s", "string")]), switch("k", [case("1", [field("a", "short")]), case(None, [field("z", "char")], default=True)])])
    add("switch-in-chunked-field-outside", [field("k", "E1"), chunked([field("s", "string"), brk(), switch("k", [case("A", [field("t", "string")]), case("B", [])]), brk(), field("u", "string")])])
    add("length-in-chunked-used-outside", [chunked([length("n", "char"), field("s", "string"), brk()]), array("xs", "short", length="n")])
    add("length-outside-used-in-chunked", [length("n", "char"), chunked([array("names", "U", length="n", delimited="true"), field("tail", "string")])])
    add("shared-struct", [field("one", "F"), array("two", "F", length="2"), array("rest", "F")])
    add("none-member-switch", [field("k", "E1"), switch("k", [case("None", [field("n", "char")]), case("B", [])])])
    add("dummy-only-packet", [dummy("short", "0")], "packet:net/server")
    add("bool-array", [length("n", "char"), array("flags", "bool", length="n"), array("more", "bool:short")])
    add("offset-padded-encoded", [length("n", "char", offset="-1"), field("s", "encoded_string", length="n", padded="true"), field("t", "encoded_string", length="3", padded="true")])
    # a switch directly after a chunked section that holds its field; a chunked section nested in a chunked section and
    # in a case of a chunked parent, each with more instructions after the inner section
    add("switch-directly-after-chunked", [chunked([field("kind", "char"), field("name", "string"), brk()]),
                                          switch("kind", [case("1", [field("text", "string")]), case("2", [field("inner", "U")])])])
    add("chunked-in-chunked-then-more", [chunked([field("a", "string"), brk(), chunked([field("b", "string"), brk()]), field("c", "string"), brk(), field("d", "string")])])
    add("chunked-case-in-chunked-parent", [chunked([field("k", "char"), switch("k", [case("1", [chunked([field("b", "string"), brk()]), field("c", "string")])]), brk(), field("d", "string")])])
    # decimal literals with leading zeros are valid integers of the format wherever an integer is written
    add("leading-zeros", [field("a", "char", "007"), field(None, "short", "0300"), field("s", "string", length="03"), array("xs", "char", length="02"),
                          field("k", "char"), switch("k", [case("01", [field("y", "char")]), case("2", [])]),
                          field("e", "E1"), switch("e", [case("0200", [field("z", "char")]), case("A", [])]), dummy("char", "00")])
    add("leading-zeros-dummy", [dummy("short", "010")])
    # an absent optional item as the LAST item of a chunk that is not the last chunk: the break and the later chunks are
    # still written
    add("optional-array-then-break", [chunked([field("a", "char"), array("xs", "char", optional="true"), brk(), field("name", "string"), brk(), field("title", "string")])])
    add("optional-items-then-break", [chunked([field("s", "string", optional="true"), brk(), field("p", "P", optional="true"), brk(),
                                               array("ys", "short", length="2", optional="true"), brk(), field("tail", "string")])])
    # very wide padded fields (more fill bytes than any small block), and a fixed array of length zero
    add("wide-padded", [field("a", "string", length="300", padded="true"), field("b", "encoded_string", length="301", padded="true"), field("n", "char")])
    add("zero-length-array", [field("a", "char"), array("reserved", "char", length="0"), field("b", "char")])
    add("two-chunked-sections-then-field", [chunked([field("a", "string")]), chunked([field("b", "string")]), field("c", "string")])
    return out
