"""E3 plumbing: run the REAL generator on synthesized spec trees and import the generated classes.

A Program is one unit under test (a struct or a packet) placed in one of the six protocol files.
Programs are generated in batches (one scratch tree per batch); if the generator rejects a batch the
programs are retried one by one so that the rejecting program is identified.
"""

import contextlib
import importlib
import io
import os
import shutil
import sys
import traceback
from pathlib import Path

from . import loader, specs

SUBPKG = {"": "", "map": "map", "net": "net", "net/client": "net.client", "net/server": "net.server", "pub": "pub", "pub/server": "pub.server"}


class Program:
    """kind: 'struct' | 'packet'; body: list of instruction nodes; file: one of specs.FILES"""

    __slots__ = ("pid", "kind", "file", "body", "name", "node", "extra", "meta")

    def __init__(self, pid, kind, body, file="net", extra=(), meta=None, attrs=None, slot=0):
        self.pid = pid
        self.kind = kind
        self.file = file
        self.body = body
        self.extra = list(extra)  # further enum/struct nodes this program needs (same file)
        self.meta = meta or {}
        if kind == "struct":
            self.name = f"T{pid}"
            self.node = specs.struct(self.name, body)
        else:
            fam = f"Fam{slot % specs.N_FAMILIES + 1}"  # unique per batch position
            act = "Act" if pid % 2 == 0 else "Other"
            suffix = "ClientPacket" if file == "net/client" else "ServerPacket"
            self.name = f"{fam}{act}{suffix}"
            self.node = specs.packet(fam, act, body)
        if attrs:
            self.node.attrs.update(attrs)

    @property
    def module(self):
        return "eolib.protocol._generated." + SUBPKG[self.file] + "." + snake(self.name)

    def env(self):
        e = specs.Env(specs.prelude())
        for n in self.extra:
            e.add(n)
        return e


def snake(name):
    """Documented module naming: PascalCase type name -> snake_case module name."""
    out = ""
    for i, c in enumerate(name):
        if i > 0 and c.isupper() and ((i + 1 < len(name) and not name[i + 1].isupper()) or name[i - 1].islower()):
            out += "_"
        out += c.lower()
    return out


def write_tree(files, root, n_families=None, raw=None):
    """files: {relative dir: [nodes]} -> writes <root>/<dir>/protocol.xml for all six directories.
    raw: optional {relative dir: xml text} overriding the rendered text of a file."""
    for d in list(specs.FILES) + ([""] if "" in files else []):
        os.makedirs(os.path.join(root, d), exist_ok=True)
        nodes = list(files.get(d, []))
        if d == "net":
            nodes = specs.prelude(n_families) + nodes
        with open(os.path.join(root, d, "protocol.xml"), "w", encoding="utf-8") as f:
            f.write(raw[d] if raw and d in raw else specs.protocol_xml(nodes))


def tree_for(programs):
    files = {}
    for p in programs:
        files.setdefault(p.file, [])
        late = [n for n in p.extra if n.get("name", "").startswith("Late")]
        files[p.file].extend(n for n in p.extra if n not in late)
        files[p.file].append(p.node)
        files[p.file].extend(late)  # types named Late* are declared AFTER the program that uses them
    return files


def run_generator(in_dir, out_dir):
    """-> None if the generator returned, else the exception it raised (any class)."""
    gen = loader.generator()
    buf = io.StringIO()
    try:
        with contextlib.redirect_stdout(buf):
            gen.ProtocolCodeGenerator(Path(in_dir)).generate(Path(out_dir))
    except RecursionError as e:
        return e
    except Exception as e:  # noqa: BLE001 - any exception class counts as a rejection
        return e
    return None


def run_generator_twice(in_dir, out_dir, rewrite):
    """One ProtocolCodeGenerator object generates the tree in in_dir, then `rewrite()` changes the tree on disk and the
    SAME object generates again.  -> ('first-failed', exc) | ('returned', None) | ('raised', exc) for the second run."""
    gen = loader.generator()
    buf = io.StringIO()
    with contextlib.redirect_stdout(buf):
        try:
            g = gen.ProtocolCodeGenerator(Path(in_dir))
            g.generate(Path(out_dir) / "first")
        except Exception as e:  # noqa: BLE001
            return ("first-failed", e)
        rewrite()
        try:
            g.generate(Path(out_dir) / "second")
        except Exception as e:  # noqa: BLE001
            return ("raised", e)
    return ("returned", None)


class Loaded:
    """Result for one program: .cls (generated class) or .gen_error / .import_error"""

    __slots__ = ("program", "cls", "gen_error", "import_error", "out_dir")

    def __init__(self, program):
        self.program = program
        self.cls = None
        self.gen_error = None
        self.import_error = None
        self.out_dir = None


def _import(program):
    mod = importlib.import_module(program.module)
    return getattr(mod, program.name)


def load_batch(programs, keep=False):
    """Generate + import a batch.  -> list[Loaded] (same order).  The scratch tree is removed on the
    next call (generated modules stay importable until then)."""
    global _last_dirs
    for d in _last_dirs:
        shutil.rmtree(d, ignore_errors=True)
    _last_dirs = []
    results = [Loaded(p) for p in programs]
    work = loader.scratch_dir("batch")
    _last_dirs.append(work)
    in_dir, out_dir = os.path.join(work, "xml"), os.path.join(work, "out")
    write_tree(tree_for(programs), in_dir)
    err = run_generator(in_dir, out_dir)
    if err is None:
        loader.point_generated_at(out_dir)
        for r in results:
            r.out_dir = out_dir
            try:
                r.cls = _import(r.program)
            except Exception as e:  # noqa: BLE001
                r.import_error = f"{type(e).__name__}: {e}"
        if all(r.cls is not None for r in results):
            return results
    # retry one by one (generate AND import each program alone: a module that does not import would
    # poison its whole package through the star-imports of the generated __init__)
    results = [Loaded(p) for p in programs]
    shutil.rmtree(work, ignore_errors=True)
    os.makedirs(work)
    out_dir = os.path.join(work, "out")
    good = []
    for i, r in enumerate(results):
        one_in = os.path.join(work, f"xml{i}")
        one_out = os.path.join(work, f"out{i}")
        write_tree(tree_for([r.program]), one_in)
        err = run_generator(one_in, one_out)
        if err is not None:
            r.gen_error = f"{type(err).__name__}: {err}"
        else:
            loader.point_generated_at(one_out)
            try:
                _import(r.program)
                good.append(r)
            except Exception as e:  # noqa: BLE001
                r.import_error = f"{type(e).__name__}: {e}"
        shutil.rmtree(one_in, ignore_errors=True)
        shutil.rmtree(one_out, ignore_errors=True)
    # the good ones are generated together once more so that they share one set of prelude classes
    if good:
        in_dir = os.path.join(work, "xml")
        write_tree(tree_for([r.program for r in good]), in_dir)
        err = run_generator(in_dir, out_dir)
        if err is not None:
            raise loader.HarnessError(f"programs accepted one by one are rejected together: {type(err).__name__}: {err}")
        loader.point_generated_at(out_dir)
        for r in good:
            r.out_dir = out_dir
            try:
                r.cls = _import(r.program)
            except Exception as e:  # noqa: BLE001
                raise loader.HarnessError(f"{r.program.name} imports alone but not in its batch: {type(e).__name__}: {e}")
    else:
        loader.point_generated_at(os.path.join(work, "none"))
    return results


_last_dirs = []


def generated_source(loaded):
    p = os.path.join(loaded.out_dir, loaded.program.file, snake(loaded.program.name) + ".py")
    try:
        with open(p, encoding="utf-8") as f:
            return f.read()
    except OSError:
        return None
