"""M9: well-formedness rules W1-W17 (DESIGN Appendix D) as an independent validator.

classify_unit(unit, env, chunk_ok) -> ('valid', None) | ('invalid', rule) | ('unspecified', why)
A unit is the element whose children are instructions (struct / packet / case).
Written from the grammar rules; imports nothing from the generator.
"""

from .specs import INSTR_TAGS, instructions
from .xtypes import INT_SIZES, BadType, bounded, fixed_size, is_bool_attr, resolve

PY_KEYWORDS = {
    "False", "None", "True", "and", "as", "assert", "async", "await", "break", "class", "continue", "def", "del", "elif",
    "else", "except", "finally", "for", "from", "global", "if", "import", "in", "is", "lambda", "nonlocal", "not", "or",
    "pass", "raise", "return", "try", "while", "with", "yield",
}
RESERVED = {"reader", "writer", "data", "result", "i", "byte_size", "serialize", "deserialize", "family", "action", "write",
            "reached_missing_optional", "old_writer_length", "old_string_sanitization_mode", "old_chunked_reading_mode",
            "reader_start_position"}


class Invalid(Exception):
    def __init__(self, rule, msg=""):
        super().__init__(f"{rule}: {msg}")
        self.rule = rule


class Unspec(Exception):
    pass


class Ctx:
    def __init__(self, chunked=False, opt=False, dummy=False):
        self.chunked = chunked
        self.opt = opt
        self.dummy = dummy
        self.fields = {}  # name -> (T, is_array, node)
        self.lengths = {}  # name -> referenced?
        self.switched = set()


def _check_name(name):
    if name in PY_KEYWORDS or name in RESERVED or name.endswith("_data") or name.endswith("_length") or not name.isidentifier() or name.startswith("_"):
        raise Unspec(f"identifier {name!r} is a keyword / collides with generated names")


def _literal_ok(t, node):
    text = node.text
    if t.kind == "int":
        return text.isdigit() and text.isascii()
    if t.kind == "bool":
        return text in ("true", "false")
    if t.kind == "string":
        ref = node.get("length")
        if ref is not None and ref.isdigit() and int(ref) != len(text):
            return False
        return True
    return False


def _rtype(node, env):
    ts = node.get("type")
    if ts is None:
        raise Invalid("W17", f"<{node.tag}> without type")
    try:
        return resolve(ts, env)
    except BadType as e:
        raise Invalid(e.rule, str(e))


def _optional_rule(node, ctx):
    opt = is_bool_attr(node, "optional")
    if ctx.opt and not opt:
        raise Invalid("W11", "required item after an optional one")
    return opt


def _length_attr(node, ctx, t, is_array):
    ref = node.get("length")
    if ref is None:
        return
    if not is_array and t.kind != "string":
        raise Invalid("W7", f"length on {t.name}")
    if ref.isdigit() and ref.isascii():
        return
    if ref not in ctx.lengths:
        raise Invalid("W6", f"length={ref!r} is neither a literal nor an earlier length field of this scope")
    if ctx.lengths[ref]:
        raise Invalid("W6", f"length field {ref} referenced twice")


def _walk(node, ctx, env):
    for ins in node.kids:
        if ins.tag not in INSTR_TAGS:
            if ins.tag in ("comment", "case"):
                continue
            raise Unspec(f"unknown element <{ins.tag}>")
        if ctx.dummy:
            raise Invalid("W12", "instruction after a dummy")
        tag = ins.tag
        if tag == "field":
            _field(ins, ctx, env)
        elif tag == "array":
            _array(ins, ctx, env)
        elif tag == "length":
            _length(ins, ctx, env)
        elif tag == "dummy":
            t = _rtype(ins, env)
            if t.kind not in ("int", "bool", "string"):
                raise Invalid("W14", "dummy of non-basic type")
            if ins.text is None:
                raise Invalid("W13", "dummy without a value")
            if not _literal_ok(t, ins):
                raise Invalid("W14", "dummy literal of the wrong type")
            ctx.dummy = True
        elif tag == "chunked":
            was = ctx.chunked
            ctx.chunked = True
            _walk(ins, ctx, env)
            ctx.chunked = was
        elif tag == "break":
            if not ctx.chunked:
                raise Invalid("W10", "break outside chunked")
            ctx.opt = False
            ctx.dummy = False
        elif tag == "switch":
            _switch(ins, ctx, env)


def _field(ins, ctx, env):
    name = ins.get("name")
    opt = is_bool_attr(ins, "optional")
    t = _rtype(ins, env)
    if name is None:
        if ins.text is None:
            raise Invalid("W13", "unnamed field without a value")
        if opt:
            raise Invalid("W13", "optional unnamed field")
    _optional_rule(ins, ctx)
    if ins.text is not None:
        if t.kind not in ("int", "bool", "string"):
            raise Invalid("W14", f"literal on {t.kind}")
        if not _literal_ok(t, ins):
            raise Invalid("W14", "literal of the wrong type or length")
        if "\n" in ins.text:
            raise Unspec("multi-line literal")
        if opt:
            raise Unspec("optional literal field")
    if is_bool_attr(ins, "delimited") or ins.get("delimited") is not None:
        raise Unspec("delimited on a field")
    if ins.get("offset") is not None:
        raise Unspec("offset on a field")
    _length_attr(ins, ctx, t, False)
    if ins.get("padded") is not None and (t.kind != "string" or ins.get("length") is None):
        raise Unspec("padded without a string length")
    if name is not None:
        _check_name(name)
        if name in ctx.fields or name in ctx.lengths:
            raise Invalid("W5", f"field {name} redefined")
        ctx.fields[name] = (t, False, ins)
        ref = ins.get("length")
        if ref is not None and not ref.isdigit():
            ctx.lengths[ref] = True
            if opt != is_bool_attr(ctx.fields[ref][2], "optional"):
                raise Unspec("a length field and the field it measures must both be optional or both required")
    if t.kind == "struct" and _struct_unspecified(t.name, env):
        raise Unspec("struct with unspecified shape")
    if opt:
        ctx.opt = True


def _array(ins, ctx, env):
    name = ins.get("name")
    if name is None:
        raise Invalid("W9", "array without a name")
    t = _rtype(ins, env)
    opt = _optional_rule(ins, ctx)
    if ins.text is not None and ins.text.strip():
        raise Unspec("text on an array")
    delimited = is_bool_attr(ins, "delimited")
    if delimited and not ctx.chunked:
        raise Invalid("W9", "delimited array outside chunked")
    if not delimited and not bounded(t, env):
        raise Invalid("W9", "non-delimited array of an unbounded element type")
    _length_attr(ins, ctx, t, True)
    _check_name(name)
    if name in ctx.fields or name in ctx.lengths:
        raise Invalid("W5", f"field {name} redefined")
    if fixed_size(t, env) == 0:
        raise Unspec("zero-size array element")
    if t.kind == "struct" and (_struct_unspecified(t.name, env) or _has_dummy(env.structs[t.name])):
        raise Unspec("array of a struct with a dummy / unspecified shape")
    if t.kind == "struct" and not instructions(env.structs[t.name]):
        raise Unspec("array of an empty struct")
    ctx.fields[name] = (t, True, ins)
    ref = ins.get("length")
    if ref is not None and not ref.isdigit():
        ctx.lengths[ref] = True
        if opt != is_bool_attr(ctx.fields[ref][2], "optional"):
            raise Unspec("a length field and the array it measures must both be optional or both required")
    if opt:
        ctx.opt = True


def _length(ins, ctx, env):
    name = ins.get("name")
    if name is None:
        raise Invalid("W8", "length without a name")
    t = _rtype(ins, env)
    if t.kind != "int":
        raise Invalid("W8", "length field of non-integer type")
    opt = _optional_rule(ins, ctx)
    if opt:
        ctx.opt = True
    off = ins.get("offset")
    if off is not None:
        try:
            int(off)
        except ValueError:
            raise Invalid("W17", "offset is not an integer")
    _check_name(name)
    if name in ctx.fields or name in ctx.lengths:
        raise Invalid("W5", f"field {name} redefined")
    ctx.lengths[name] = False
    ctx.fields[name] = (t, False, ins)


def _switch(sw, ctx, env):
    fname = sw.get("field")
    if fname is None:
        raise Invalid("W17", "switch without field")
    if fname not in ctx.fields or fname in ctx.lengths and False:
        raise Invalid("W15", f"switch on {fname!r} which is not an earlier field of this scope")
    t, is_array, fnode = ctx.fields[fname]
    cases = [c for c in sw.kids if c.tag == "case"]
    if fname in ctx.switched:
        raise Unspec("two switches on one field")
    ctx.switched.add(fname)
    if not cases:
        raise Unspec("switch without cases")
    if is_array:
        raise Invalid("W15", "switch on an array")
    if t.kind not in ("int", "enum"):
        raise Invalid("W15", f"switch on a {t.kind} field")
    if fnode.tag == "length" or fnode.text is not None:
        raise Unspec("switch on a length / literal field")
    seen, ndefault = set(), 0
    ended_opt, ended_dummy = False, False
    for idx, c in enumerate(cases):
        if is_bool_attr(c, "default"):
            if idx == 0:
                raise Invalid("W15", "default as the first case")
            ndefault += 1
            if ndefault > 1:
                raise Unspec("several default cases")
            if idx != len(cases) - 1:
                raise Unspec("default case not last")
            key = "default"
        else:
            v = c.get("value")
            if v is None:
                raise Invalid("W17", "case without value")
            if t.kind == "int":
                if not (v.isdigit() and v.isascii()):
                    raise Invalid("W15", f"case value {v!r} is not an integer")
                val = int(v)  # leading zeros are still decimal digits
            else:
                named = dict(env.enum_values(t.name))
                try:
                    iv = int(v)
                except ValueError:
                    iv = None
                if iv is not None:
                    if iv in named.values():
                        raise Invalid("W15", f"ordinal {v} has a name")
                    if not v.isdigit():
                        raise Unspec("signed case ordinal")
                    val = iv
                elif v in named:
                    val = named[v]
                else:
                    raise Invalid("W15", f"{v!r} is not a member of {t.name}")
            if val in seen:
                raise Unspec("duplicate case value")
            seen.add(val)
            key = v
        sub = Ctx(ctx.chunked, ctx.opt, ctx.dummy)
        _walk(c, sub, env)
        _unreferenced(sub)
        ended_opt |= sub.opt
        ended_dummy |= sub.dummy
    ctx.opt = ctx.opt or ended_opt
    ctx.dummy = ctx.dummy or ended_dummy


def _unreferenced(ctx):
    for name, used in ctx.lengths.items():
        if not used:
            raise Unspec(f"length field {name} is never referenced")


def _has_dummy(node):
    return any(n.tag == "dummy" for n in node.walk())


_struct_cache = {}


def _struct_unspecified(name, env):
    key = (id(env), name)
    if key not in _struct_cache:
        _struct_cache[key] = False  # recursion guard
        try:
            c = Ctx()
            _walk(env.structs[name], c, env)
            _unreferenced(c)
            res = False
        except Unspec:
            res = True
        except Invalid:
            res = True
        _struct_cache[key] = res
    return _struct_cache[key]


def classify_unit(unit, env, chunked=False):
    try:
        c = Ctx(chunked=chunked)
        _walk(unit, c, env)
        _unreferenced(c)
    except Invalid as e:
        return ("invalid", e.rule, str(e))
    except Unspec as e:
        return ("unspecified", None, str(e))
    return ("valid", None, "")
