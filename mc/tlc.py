"""E5: TLC on the TLA+ models + conformance replay of EVERY edge of the dumped state graph.

TLC checks the documented models' invariants on all reachable states; the replayer then walks the
dumped graph (dot, action labels; every node label carries the `last` record, so edges are
self-describing) and replays each edge on the real class: the source state is rebuilt by the BFS-tree
path from an initial state, the edge's action is applied through every concrete method of the same
abstract kind, and position / remaining / mode / consumed bytes (reader) or the returned numbers
(sequencer) are compared with the target state.
"""

import collections
import os
import re
import shutil
import subprocess

from . import loader
from .refmodels import dec_number

TLA_DIR = os.path.join(os.path.dirname(os.path.dirname(os.path.abspath(__file__))), "tla")


def run_tlc(module):
    """-> (stats dict, nodes {id: label}, edges [(src, dst, action)], initial ids)"""
    work = loader.scratch_dir("tlc")
    for ext in (".tla", ".cfg"):
        shutil.copy(os.path.join(TLA_DIR, module + ext), work)
    dot = os.path.join(work, "graph.dot")
    cmd = ["tlc", "-workers", "1", "-noGenerateSpecTE", "-metadir", os.path.join(work, "meta"), "-deadlock", "-dump", "dot,actionlabels", dot, module]
    # TLC creates a tlc-<n> directory under java.io.tmpdir on every run: keep it inside the scratch directory
    jtmp = os.path.join(work, "jtmp")
    os.makedirs(jtmp, exist_ok=True)
    env = dict(os.environ, JAVA_TOOL_OPTIONS=(os.environ.get("JAVA_TOOL_OPTIONS", "") + f" -Djava.io.tmpdir={jtmp}").strip())
    p = subprocess.run(cmd, cwd=work, capture_output=True, text=True, timeout=1800, env=env)
    out = p.stdout + p.stderr
    if "No error has been found" not in out:
        raise loader.HarnessError(f"TLC did not verify {module}: {out[-1500:]}")
    m = re.search(r"(\d+) states generated, (\d+) distinct states found", out)
    depth = re.search(r"depth of the complete state graph search is (\d+)", out)
    stats = {"tlc_states_generated": int(m.group(1)), "tlc_distinct_states": int(m.group(2)), "tlc_depth": int(depth.group(1)) if depth else None}
    nodes, edges, initial = {}, [], []
    node_re = re.compile(r'^(-?\d+) \[label="((?:[^"\\]|\\.)*)"(,style = filled)?[,\]]')
    edge_re = re.compile(r'^(-?\d+) -> (-?\d+) \[label="((?:[^"\\]|\\.)*)"')
    with open(dot) as f:
        for line in f:
            me = edge_re.match(line)
            if me:
                edges.append((me.group(1), me.group(2), me.group(3)))
                continue
            mn = node_re.match(line)
            if mn:
                nodes[mn.group(1)] = mn.group(2).replace("\\n", "\n").replace('\\"', '"').replace("\\\\", "\\")
                if mn.group(3):
                    initial.append(mn.group(1))
    shutil.rmtree(work, ignore_errors=True)
    if len(nodes) != stats["tlc_distinct_states"]:
        raise loader.HarnessError(f"{module}: parsed {len(nodes)} nodes, TLC reported {stats['tlc_distinct_states']} distinct states")
    return stats, nodes, edges, initial


def parse_state(label):
    """'/\\ a = 1\n/\\ b = ...' -> {var: raw text}"""
    out = {}
    for part in re.split(r"(?:^|\n)/\\ ", label):
        if part.strip():
            k, _, v = part.partition(" = ")
            out[k.strip()] = v.strip()
    return out


def parse_record(text):
    """[op |-> "read", arg |-> 2, out |-> <<"D">>] -> dict of raw strings"""
    inner = text.strip()[1:-1].replace("|->", "\x00")
    fields, depth, cur = [], 0, ""
    for ch in inner:
        if ch in "<[(":
            depth += 1
        elif ch in ">])":
            depth -= 1
        if ch == "," and depth == 0:
            fields.append(cur)
            cur = ""
        else:
            cur += ch
    if cur.strip():
        fields.append(cur)
    out = {}
    for f in fields:
        k, _, v = f.partition("\x00")
        out[k.strip()] = v.strip()
    return out


def parse_seq(text):
    return re.findall(r'"(.*?)"', text)


def bfs_paths(nodes, edges, initial):
    """{node: [nodes along the BFS-tree path from an initial node, inclusive]}"""
    succ = collections.defaultdict(list)
    for a, b, _ in edges:
        succ[a].append(b)
    parent = {i: None for i in initial}
    q = collections.deque(initial)
    while q:
        a = q.popleft()
        for b in succ[a]:
            if b not in parent:
                parent[b] = a
                q.append(b)
    if len(parent) != len(nodes):
        raise loader.HarnessError(f"{len(nodes) - len(parent)} dumped states are unreachable from the initial states")

    def path(n):
        out = []
        while n is not None:
            out.append(n)
            n = parent[n]
        return out[::-1]

    return path


# ================================================================ reader conformance
CONCRETE_D = (0x00, 0x01, 0xFE)


def _reader_apply(reader, last):
    op = last["op"].strip('"')
    if op == "read":
        reader.get_bytes(int(last["arg"]))
    elif op == "mode":
        reader.chunked_reading_mode = last["arg"] == "1"
    elif op == "next_chunk":
        reader.next_chunk()


def _concrete_reads(k, remaining):
    m = [("get_bytes", k), ("get_fixed_string", k)]
    if k == 1:
        m += [("get_byte",), ("get_char",)]
    if k == 2:
        m.append(("get_short",))
    if k == 3:
        m.append(("get_three",))
    if k == 4:
        m.append(("get_int",))
    if k >= remaining:
        m.append(("get_string",))
    return m


class _RefReaderFacade:
    """The reference reader M3 behind EoReader's public names (to replay the TLC graph on M3 as well)."""

    def __init__(self, data):
        from .refmodels import RefReader

        self._r = RefReader(bytes(data))

    chunked_reading_mode = property(lambda self: self._r.chunked, lambda self, v: setattr(self._r, "chunked", bool(v)))
    position = property(lambda self: self._r.pos)
    remaining = property(lambda self: self._r.remaining)

    def __getattr__(self, name):
        return getattr(self._r, name)


def replay_reader_edge(case, reader_cls=None):
    """case: {data: [D/B...], path: [last records as dicts], action: last record of the target, target: {pos, chunked, chunkStart}, fill}"""
    R = reader_cls or loader.lib("eolib.data.eo_reader").EoReader
    fills = [int(case["fill"])] if case.get("fill") is not None else CONCRETE_D
    for fill in fills:
        data = bytes(0xFF if c == "B" else fill for c in case["data"])
        last = case["action"]
        op = last["op"].strip('"')
        variants = [None]
        if op == "read":
            variants = _concrete_reads(int(last["arg"]), 10**9) + [("get_string",)]
        for variant in variants:
            r = R(data)
            for rec in case["path"]:
                _reader_apply(r, rec)
            before = r.position
            try:
                rem_before = r.remaining
                if op == "read":
                    k = int(last["arg"])
                    if variant[0] == "get_string" and not k >= rem_before:
                        continue
                    if variant[0] == "get_bytes":
                        got = bytes(r.get_bytes(k))
                    elif variant[0] == "get_fixed_string":
                        got = r.get_fixed_string(k)
                    else:
                        got = getattr(r, variant[0])()
                else:
                    _reader_apply(r, last)
                    got = None
            except Exception as e:  # noqa: BLE001
                return f"data {data.hex()} after {len(case['path'])} steps: {op} via {variant} raised {type(e).__name__}: {e}"
            tgt = case["target"]
            consumed = data[before : r.position]
            exp_out = bytes(0xFF if c == "B" else fill for c in parse_seq(last.get("out", "")))
            if r.position != int(tgt["pos"]) or bool(r.chunked_reading_mode) != (tgt["chunked"] == "TRUE"):
                return (f"data {data.hex()} path {[p['op'] + ':' + p['arg'] for p in case['path']]}: {op}({last.get('arg')}) via {variant}: "
                        f"position {r.position} mode {r.chunked_reading_mode}, the model reaches pos {tgt['pos']} chunked {tgt['chunked']}")
            if op == "read":
                if consumed != exp_out:
                    return f"data {data.hex()}: read({last['arg']}) via {variant} consumed {consumed.hex()}, the model returns {exp_out.hex()}"
                if variant[0] == "get_bytes" and got != exp_out:
                    return f"data {data.hex()}: get_bytes({last['arg']}) returned {got.hex()}, the model returns {exp_out.hex()}"
                if variant[0] in ("get_fixed_string", "get_string") and got != exp_out.decode("cp1252", "replace"):
                    return f"data {data.hex()}: {variant[0]} returned {got!r}, the model returns {exp_out!r}"
                if variant[0] == "get_byte" and got != (exp_out[0] if exp_out else 0):
                    return f"data {data.hex()}: get_byte returned {got}"
                if variant[0] in ("get_char", "get_short", "get_three", "get_int") and got != dec_number(exp_out):
                    return f"data {data.hex()}: {variant[0]} returned {got}, the model's bytes decode to {dec_number(exp_out)}"
            # remaining in the target state (model: Remaining is derived)
            exp_rem = int(tgt["remaining"])
            if r.remaining != exp_rem or r.remaining < 0:
                return f"data {data.hex()}: after {op} via {variant} remaining {r.remaining}, the model has {exp_rem}"
    return None


def _model_remaining(st):
    data = parse_seq(st["data"])
    pos, cs = int(st["pos"]), int(st["chunkStart"])
    if st["chunked"] == "TRUE":
        nb = len(data)
        for i in range(cs, len(data)):
            if data[i] == "B":
                nb = i
                break
        return max(0, nb - pos)
    return len(data) - pos


def run_reader_conformance():
    stats, nodes, edges, initial = run_tlc("ChunkedReader")
    states = {n: parse_state(l) for n, l in nodes.items()}
    path = bfs_paths(nodes, edges, initial)
    replayed, violations = 0, []
    for a, b, action in edges:
        sa, sb = states[a], states[b]
        recs = [parse_record(states[n]["last"]) for n in path(a)[1:]]
        case = {
            "kind": "tlc-edge",
            "data": parse_seq(sa["data"]),
            "path": recs,
            "action": parse_record(sb["last"]),
            "target": {"pos": sb["pos"], "chunked": sb["chunked"], "chunkStart": sb["chunkStart"], "remaining": _model_remaining(sb)},
        }
        drift = replay_reader_edge(case, _RefReaderFacade)
        if drift:
            raise loader.HarnessError(f"reference reader M3 and ChunkedReader.tla disagree on edge {action}: {drift}")
        what = replay_reader_edge(case)
        replayed += 1
        if what and len(violations) < 3:
            violations.append({"key": f"tlc-edge:reader:{action.split('(')[0]}", "what": f"TLC edge {action}: {what}", "case": case})
    cov = dict(stats, edges_replayed=replayed, edges_replayed_on_reference_model=replayed, concretisations=len(CONCRETE_D), model="tla/ChunkedReader.tla")
    return {"coverage": cov, "violations": violations}


# ================================================================ sequencer conformance
def replay_sequencer_edge(case):
    from .props.c13 import CTORS, make_start

    PS = loader.lib("eolib.packet.packet_sequencer").PacketSequencer
    for ctor in CTORS[1:]:
        a = PS(make_start(ctor, int(case["init"]))[0])
        b = PS(make_start(ctor, int(case["init"]))[0])
        for rec in case["path"] + [case["action"]]:
            op = rec["op"].strip('"')
            if op == "set":
                a.set_sequence_start(make_start(ctor, int(rec["arg"]))[0])
                b.set_sequence_start(make_start(ctor, int(rec["arg"]))[0])
            elif op == "next":
                ra, rb = a.next_sequence(), b.next_sequence()
                if rec is case["action"] and (ra != int(rec["outA"]) or rb != int(rec["outB"])):
                    return f"start {case['init']} path {[p['op'] + ':' + p['arg'] for p in case['path']]}: peers returned {ra}, {rb}; the model returns {rec['outA']}, {rec['outB']} (starts built via {ctor})"
    return None


def _ref_sequencer_edge(case):
    from .refmodels import RefSequencer

    m = RefSequencer(int(case["init"]))
    for rec in case["path"] + [case["action"]]:
        op = rec["op"].strip('"')
        if op == "set":
            m.set_start(int(rec["arg"]))
        elif op == "next":
            r = m.next_sequence()
            if rec is case["action"] and r != int(rec["outA"]):
                return f"reference returns {r}, the TLA+ model {rec['outA']}"
    return None


def run_sequencer_conformance():
    stats, nodes, edges, initial = run_tlc("Sequencer")
    states = {n: parse_state(l) for n, l in nodes.items()}
    path = bfs_paths(nodes, edges, initial)
    replayed, violations = 0, []
    for a, b, action in edges:
        p = path(a)
        init = parse_record(states[p[0]]["last"])["arg"]
        recs = [parse_record(states[n]["last"]) for n in p[1:]]
        case = {"kind": "tlc-edge", "init": init, "path": recs, "action": parse_record(states[b]["last"])}
        drift = _ref_sequencer_edge(case)
        if drift:
            raise loader.HarnessError(f"reference sequencer M7 and Sequencer.tla disagree on edge {action}: {drift}")
        what = replay_sequencer_edge(case)
        replayed += 1
        if what and len(violations) < 3:
            violations.append({"key": f"tlc-edge:sequencer:{action.split('(')[0]}", "what": f"TLC edge {action}: {what}", "case": case})
    cov = dict(stats, edges_replayed=replayed, constructor_paths=4, model="tla/Sequencer.tla")
    return {"coverage": cov, "violations": violations}
