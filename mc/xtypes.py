"""Type resolution for the reference semantics (M10) and the well-formedness rules (M9).

Written from the protocol grammar (Appendix C/D of DESIGN.md); imports nothing from the generator.
"""

from .specs import instructions

INT_SIZES = {"byte": 1, "char": 1, "short": 2, "three": 3, "int": 4}
INT_LIMITS = {"byte": 256, "char": 253, "short": 253**2, "three": 253**3, "int": 253**4}
INT_MAXVAL = {"byte": 255, "char": 252, "short": 253**2 - 1, "three": 253**3 - 1, "int": 253**4 - 1}
STRING_TYPES = ("string", "encoded_string")


class BadType(Exception):
    """The type string breaks rule W2/W3/W4."""

    def __init__(self, rule, msg):
        super().__init__(msg)
        self.rule = rule


class T:
    """Resolved type."""

    __slots__ = ("kind", "name", "under")

    def __init__(self, kind, name, under=None):
        self.kind = kind  # int | bool | enum | string | blob | struct
        self.name = name  # basic type name / enum name / struct name
        self.under = under  # underlying integer type name for bool/enum

    @property
    def wire_int(self):
        return self.name if self.kind == "int" else self.under

    def __repr__(self):
        return f"T({self.kind},{self.name},{self.under})"


def resolve(type_str, env):
    parts = type_str.split(":")
    if len(parts) > 2:
        raise BadType("W3", f"{type_str}: only one colon allowed")
    name = parts[0]
    over = parts[1] if len(parts) == 2 else None
    if over is not None:
        if over == name:
            raise BadType("W3", f"{name} cannot be its own underlying type")
        if over not in INT_SIZES:
            if over in STRING_TYPES or over in ("bool", "blob") or over in env.enums or over in env.structs:
                raise BadType("W3", f"{over} is not an integer type")
            raise BadType("W2", f"{over} is not defined")
    if name in INT_SIZES:
        if over is not None:
            raise BadType("W3", f"{name} has no underlying type")
        return T("int", name)
    if name == "bool":
        return T("bool", "bool", over or "char")
    if name in STRING_TYPES:
        if over is not None:
            raise BadType("W3", f"{name} has no underlying type")
        return T("string", name)
    if name == "blob":
        if over is not None:
            raise BadType("W3", "blob has no underlying type")
        return T("blob", "blob")
    if name in env.enums:
        base = env.enums[name].get("type")
        if over is None:
            if base is None:
                raise BadType("W17", f"enum {name} has no type")
            if base == name or base not in INT_SIZES:
                raise BadType("W4", f"enum {name} has underlying type {base}")
        return T("enum", name, over or base)
    if name in env.structs:
        if over is not None:
            raise BadType("W3", f"struct {name} has no underlying type")
        return T("struct", name)
    raise BadType("W2", f"{name} is not defined")


def is_bool_attr(node, name, default=False):
    v = node.get(name)
    if v is None:
        return default
    return v.lower() == "true"


def literal_length(node):
    v = node.get("length")
    if v is not None and v.isdigit():
        return int(v)
    return None


def fixed_size(t, env, node=None, _seen=()):
    """Size in bytes if every value of the type has the same size, else None.  `node` carries a length attr."""
    if t.kind == "int":
        return INT_SIZES[t.name]
    if t.kind in ("bool", "enum"):
        return INT_SIZES[t.under]
    if t.kind == "string":
        return literal_length(node) if node is not None else None
    if t.kind == "blob":
        return None
    if t.name in _seen:
        return None
    total = 0
    for ins in instructions(env.structs[t.name]):
        if ins.tag == "field":
            if is_bool_attr(ins, "optional"):
                return None
            s = fixed_size(resolve(ins.get("type"), env), env, ins, _seen + (t.name,))
            if s is None:
                return None
            total += s
        elif ins.tag == "array":
            n = literal_length(ins)
            if n is None or is_bool_attr(ins, "optional") or is_bool_attr(ins, "delimited"):
                return None
            s = fixed_size(resolve(ins.get("type"), env), env, None, _seen + (t.name,))
            if s is None:
                return None
            total += n * s
        else:
            # length / dummy / switch / chunked / break: not a fixed-size record for our purposes
            return None
    return total


def bounded(t, env, node=None, _seen=()):
    """Can the type be read without running to the end of the data/chunk?"""
    if t.kind in ("int", "bool", "enum"):
        return True
    if t.kind == "string":
        return node is not None and node.get("length") is not None
    if t.kind == "blob":
        return False
    if t.name in _seen:
        return True
    ok = True
    for ins in _flatten(env.structs[t.name]):
        if not ok:
            ok = ins.tag == "break"
            continue
        if ins.tag == "field":
            ok = bounded(resolve(ins.get("type"), env), env, ins, _seen + (t.name,))
        elif ins.tag == "array":
            ok = bounded(resolve(ins.get("type"), env), env, None, _seen + (t.name,)) and ins.get("length") is not None
        elif ins.tag == "dummy":
            ok = bounded(resolve(ins.get("type"), env), env, None, _seen + (t.name,))
    return ok


def _flatten(node):
    out = []
    for ins in instructions(node):
        out.append(ins)
        if ins.tag == "chunked":
            out += _flatten(ins)
        elif ins.tag == "switch":
            for c in ins.kids:
                if c.tag == "case":
                    out += _flatten(c)
    return out
