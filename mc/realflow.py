"""G3 'real loader': the flow a user runs - copy of the repository, spec tree at eo-protocol/xml,
`python protocol.py generate`, then `import eolib` in fresh interpreters."""

import hashlib
import json
import os
import shutil
import subprocess
import sys

from . import genpipe, loader, specs

PY = sys.executable


def make_install(files, raw=None, n_families=4):
    """Scratch copy of src/, protocol_code_generator/, protocol.py with the given spec tree."""
    root = loader.scratch_dir("install")
    for d in ("src", "protocol_code_generator"):
        shutil.copytree(os.path.join(loader.REPO, d), os.path.join(root, d), ignore=shutil.ignore_patterns("__pycache__", "_generated"))
    shutil.copy(os.path.join(loader.REPO, "protocol.py"), root)
    genpipe.write_tree(files, os.path.join(root, "eo-protocol", "xml"), n_families=n_families, raw=raw)
    return root


def run_generate(root, hashseed=0, timeout=120, ascii_locale=False, foreign_cwd=False):
    """The user's flow.  ascii_locale: a process whose default text encoding is ASCII (no UTF-8 mode, C locale);
    foreign_cwd: started from another working directory with an absolute script path."""
    env = dict(os.environ, PYTHONHASHSEED=str(hashseed), PYTHONDONTWRITEBYTECODE="1", PYTHONPATH=root)
    if ascii_locale:
        env.update(PYTHONUTF8="0", PYTHONCOERCECLOCALE="0", LC_ALL="C", LANG="C")
        env.pop("PYTHONIOENCODING", None)
    cwd = "/" if foreign_cwd else root
    script = os.path.join(root, "protocol.py") if foreign_cwd else "protocol.py"
    p = subprocess.run([PY, "-B", script, "generate"], cwd=cwd, env=env, capture_output=True, text=True, timeout=timeout, errors="replace")
    return p.returncode, (p.stdout[-2000:] + p.stderr[-3000:])


API_SCRIPT = r"""
import os, shutil, sys
from pathlib import Path
root, mode = sys.argv[1], sys.argv[2]
sys.path.insert(0, root)
from protocol_code_generator.generate.code_generator import ProtocolCodeGenerator
gen_dir = os.path.join(root, "src", "eolib", "protocol", "_generated")
shutil.rmtree(gen_dir, ignore_errors=True)
xml = os.path.join(root, "eo-protocol", "xml")
if "twin" in mode:
    # another specification tree is generated first in the same interpreter (types of the same names live elsewhere in it)
    ProtocolCodeGenerator(Path(os.path.join(root, "twin-xml"))).generate(Path(os.path.join(root, "twin-out")))
if "dot" in mode:
    os.chdir(xml)
    ProtocolCodeGenerator(Path(".")).generate(Path(gen_dir))
else:
    ProtocolCodeGenerator(Path(xml)).generate(Path(gen_dir))
"""


def rotated_twin(files):
    """The same types declared in other directories (net -> pub -> map -> net; packets stay where packets must be)."""
    rot = {"net": "pub", "pub": "map", "map": "net", "pub/server": "pub/server", "net/client": "net/client", "net/server": "net/server"}
    out = {}
    for d, nodes in files.items():
        if d == "":
            continue
        for n in nodes:
            out.setdefault(d if n.tag == "packet" else rot.get(d, d), []).append(n)
    return out


def run_generate_api(root, mode, files=None, n_families=4, timeout=120):
    """Generate through the generator's API instead of protocol.py: mode contains 'dot' (input root Path('.') with the
    xml directory as working directory) and/or 'twin' (the rotated twin tree is generated first in the same interpreter)."""
    if "twin" in mode:
        shutil.rmtree(os.path.join(root, "twin-xml"), ignore_errors=True)
        shutil.rmtree(os.path.join(root, "twin-out"), ignore_errors=True)
        genpipe.write_tree(rotated_twin(files), os.path.join(root, "twin-xml"), n_families=n_families)
    env = dict(os.environ, PYTHONHASHSEED="0", PYTHONDONTWRITEBYTECODE="1")
    opt = ["-OO"] if sys.flags.optimize >= 2 else []
    p = subprocess.run([PY, "-B", *opt, "-c", API_SCRIPT, root, mode], cwd=root, env=env, capture_output=True, text=True, timeout=timeout, errors="replace")
    return p.returncode, (p.stdout[-1000:] + p.stderr[-3000:])


def generated_dir(root):
    return os.path.join(root, "src", "eolib", "protocol", "_generated")


def snapshot(path):
    """{relative path: sha1 of bytes} of a directory tree (without __pycache__)."""
    out = {}
    for base, dirs, files in os.walk(path):
        dirs[:] = sorted(d for d in dirs if d != "__pycache__")
        for f in sorted(files):
            full = os.path.join(base, f)
            with open(full, "rb") as fh:
                out[os.path.relpath(full, path)] = hashlib.sha1(fh.read()).hexdigest()
    return out


def diff_snapshots(a, b):
    keys = sorted(set(a) | set(b))
    return [k for k in keys if a.get(k) != b.get(k)]


def probe(root, script, args=(), hashseed=0, timeout=120):
    """Run a probe script in a fresh interpreter whose only eolib is the install's; -> parsed JSON of its last line."""
    env = dict(os.environ, PYTHONHASHSEED=str(hashseed), PYTHONDONTWRITEBYTECODE="1", PYTHONPATH=os.path.join(root, "src"))
    # the fresh interpreters run at the optimisation level of the harness (the -OO pass of mc/cli.py reaches them too)
    opt = ["-OO"] if sys.flags.optimize >= 2 else ["-O"] if sys.flags.optimize == 1 else []
    p = subprocess.run([PY, "-B", "-S", *opt, "-c", script, *args], cwd=root, env=env, capture_output=True, text=True, timeout=timeout)
    lines = [l for l in p.stdout.splitlines() if l.startswith("{")]
    if not lines:
        return {"probe_failed": True, "exit": p.returncode, "stderr": p.stderr[-1500:], "stdout": p.stdout[-500:]}
    return json.loads(lines[-1])


def declared_types(files, n_families=4):
    """[(subpackage dotted path, class name)] for every enum/struct/packet of a tree (prelude included)."""
    out = []
    all_files = {d: list(files.get(d, [])) for d in list(specs.FILES) + ([""] if "" in files else [])}
    all_files["net"] = specs.prelude(n_families) + all_files["net"]
    for d, nodes in all_files.items():
        sub = genpipe.SUBPKG[d]
        for n in nodes:
            if n.tag in ("enum", "struct"):
                out.append((sub, n.get("name")))
            elif n.tag == "packet":
                suffix = "ClientPacket" if d == "net/client" else "ServerPacket"
                out.append((sub, n.get("family") + n.get("action") + suffix))
    return out
