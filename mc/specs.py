"""Section 5.1: the universe of specifications (programs) - XML trees, prelude, templates, bodies.

A specification is kept as a tiny XML-like tree (class N) so that the reference semantics (M10),
the well-formedness rules (M9) and the rule-violating edits of C17 all work on the same thing the
generator parses: tags, string attributes, text.
"""

import itertools
from xml.sax.saxutils import escape, quoteattr


class N:
    __slots__ = ("tag", "attrs", "kids", "text", "text_last")

    def __init__(self, tag, attrs=None, kids=(), text=None, text_last=False):
        self.tag = tag
        self.attrs = dict(attrs or {})
        self.kids = list(kids)
        self.text = text
        self.text_last = text_last  # render the text AFTER the child elements, on its own indented line

    def get(self, k, default=None):
        return self.attrs.get(k, default)

    def copy(self):
        return N(self.tag, dict(self.attrs), [k.copy() for k in self.kids], self.text, self.text_last)

    def xml(self, indent=0):
        pad = "  " * indent
        a = "".join(f" {k}={quoteattr(str(v))}" for k, v in self.attrs.items())
        if not self.kids and self.text is None:
            return f"{pad}<{self.tag}{a}/>"
        if not self.kids:
            return f"{pad}<{self.tag}{a}>{escape(self.text)}</{self.tag}>"
        inner = "\n".join(k.xml(indent + 1) for k in self.kids)
        t = escape(self.text) if self.text is not None else ""
        if self.text_last and self.text is not None:
            return f"{pad}<{self.tag}{a}>\n{inner}\n{pad}  {t}\n{pad}</{self.tag}>"
        return f"{pad}<{self.tag}{a}>{t}\n{inner}\n{pad}</{self.tag}>"

    def key(self):
        return (self.tag, tuple(sorted(self.attrs.items())), tuple(k.key() for k in self.kids), self.text, self.text_last)

    def __repr__(self):
        return self.xml().replace("\n", "")

    def walk(self):
        yield self
        for k in self.kids:
            yield from k.walk()


INSTR_TAGS = ("field", "array", "length", "dummy", "switch", "chunked", "break")


def instructions(node):
    return [k for k in node.kids if k.tag in INSTR_TAGS]


# ---------------------------------------------------------------- convenience constructors
def field(name, typ, text=None, **a):
    attrs = {}
    if name is not None:
        attrs["name"] = name
    attrs["type"] = typ
    attrs.update({k.replace("_", "-"): v for k, v in a.items()})
    return N("field", attrs, text=text)


def array(name, typ, **a):
    attrs = {"name": name, "type": typ}
    attrs.update({k.replace("_", "-"): v for k, v in a.items()})
    return N("array", attrs)


def length(name, typ, **a):
    attrs = {"name": name, "type": typ}
    attrs.update(a)
    return N("length", attrs)


def dummy(typ, text):
    return N("dummy", {"type": typ}, text=text)


def brk():
    return N("break")


def chunked(kids):
    return N("chunked", {}, kids)


def switch(fieldname, cases):
    return N("switch", {"field": fieldname}, cases)


def case(value, kids, default=False):
    attrs = {"default": "true"} if default else {"value": value}
    return N("case", attrs, kids)


def enum(name, typ, values):
    return N("enum", {"name": name, "type": typ}, [N("value", {"name": k}, text=str(v)) for k, v in values])


def struct(name, kids, comment=None):
    ks = list(kids)
    if comment:
        ks = [N("comment", text=comment)] + ks
    return N("struct", {"name": name}, ks)


def packet(family, action, kids):
    return N("packet", {"family": family, "action": action}, kids)


# ---------------------------------------------------------------- prelude
N_FAMILIES = 240


def prelude(n_families=None):
    n_families = N_FAMILIES if n_families is None else n_families
    fams = [(f"Fam{i}", i) for i in range(1, n_families + 1)] + [("Last", 255)]
    return [
        enum("PacketFamily", "byte", fams),
        enum("PacketAction", "byte", [("Act", 1), ("Other", 255)]),
        enum("E1", "char", [("None", 0), ("A", 1), ("B", 2)]),
        enum("E2", "short", [("Zero", 0), ("Big", 300)]),
        enum("E3", "byte", [("One", 1), ("Max", 255)]),
        struct("P", [field("x", "char"), field("y", "short")]),
        struct("V", [length("n", "char"), field("s", "string", length="n")]),
        struct("U", [field("s", "string")]),
        struct("K", [chunked([field("s", "string"), brk(), field("t", "char")])]),
        struct("O", [field("a", "char"), field("b", "char", optional="true")]),
        struct("W", [field("p", "P"), field("v", "V"), field("e", "E2:char")]),
        struct("KK", [chunked([field("k", "K"), brk(), field("n", "char")])]),
        struct("F", [field("tag", "string", length="2", padded="true"), field("e", "E1"), field("inner", "P"), array("xs", "char", length="2")]),
    ]


class Env:
    """Type environment: every enum/struct of a tree by name."""

    def __init__(self, nodes=()):
        self.enums = {}
        self.structs = {}
        for n in nodes:
            self.add(n)

    def add(self, n):
        if n.tag == "enum":
            self.enums[n.get("name")] = n
        elif n.tag == "struct":
            self.structs[n.get("name")] = n

    def enum_values(self, name):
        return [(v.get("name"), int(v.text)) for v in self.enums[name].kids if v.tag == "value"]

    def enum_type(self, name):
        return self.enums[name].get("type")


PRELUDE_ENV = Env(prelude())

FILES = ("map", "net", "net/client", "net/server", "pub", "pub/server")


def protocol_xml(nodes):
    return '<?xml version="1.0" encoding="UTF-8"?>\n' + N("protocol", {}, nodes).xml() + "\n"


# ---------------------------------------------------------------- templates
class Namer:
    def __init__(self):
        self.i = 0

    def __call__(self):
        self.i += 1
        return f"f{self.i}"


def _T(tid, cost, fn, group):
    return {"id": tid, "cost": cost, "make": fn, "group": group}


def leaf_templates():
    """Section 5.1 table.  Each template builds 1..3 instructions from a Namer."""
    t = []

    def one(tid, group, build):
        t.append(_T(tid, 1, lambda nm, b=build: [b(nm())], group))

    for typ in ("byte", "char", "short", "three", "int", "bool", "bool:short", "E1", "E1:short", "E2", "E3", "E3:char", "E1:byte"):
        one(f"int:{typ}", "integers", lambda n, typ=typ: field(n, typ))
    for s in ("P", "V", "U", "K", "O", "F", "W", "KK"):
        one(f"struct:{s}", "structs", lambda n, s=s: field(n, s))
    one("str", "strings", lambda n: field(n, "string"))
    one("estr", "strings", lambda n: field(n, "encoded_string"))
    one("blob", "strings", lambda n: field(n, "blob"))
    one("str3", "strings", lambda n: field(n, "string", length="3"))
    one("estr3", "strings", lambda n: field(n, "encoded_string", length="3"))
    one("str3p", "strings", lambda n: field(n, "string", length="3", padded="true"))
    one("estr3p", "strings", lambda n: field(n, "encoded_string", length="3", padded="true"))
    # hardcoded
    t.append(_T("hc:char", 1, lambda nm: [field(None, "char", "7")], "hardcoded"))
    t.append(_T("hc:short", 1, lambda nm: [field(None, "short", "300")], "hardcoded"))
    t.append(_T("hc:bool", 1, lambda nm: [field(None, "bool", "true")], "hardcoded"))
    t.append(_T("hc:str", 1, lambda nm: [field(None, "string", "hi")], "hardcoded"))
    t.append(_T("hc:str2", 1, lambda nm: [field(None, "string", "hi", length="2")], "hardcoded"))
    one("hcn:char", "hardcoded", lambda n: field(n, "char", "7"))
    one("hcn:str", "hardcoded", lambda n: field(n, "string", "hi"))
    one("hcn:bool", "hardcoded", lambda n: field(n, "bool", "true"))
    # the literal written AFTER a <comment> child, on its own line (pretty-printed XML)
    t.append(_T("hc:str-after-comment", 1, lambda nm: [N("field", {"type": "string"}, [N("comment", text="marker")], text="OK", text_last=True)], "hardcoded"))
    t.append(_T("hc:char-after-comment", 1, lambda nm: [N("field", {"type": "char"}, [N("comment", text="seven")], text="7", text_last=True)], "hardcoded"))
    # literals that need escaping inside a Python string literal: a " b \ c
    t.append(_T("hc:str-esc", 1, lambda nm: [field(None, "string", 'a"b\\c')], "hardcoded"))
    one("hcn:str-esc", "hardcoded", lambda n: field(n, "string", 'q"\\', length="3"))
    # optional
    one("opt:char", "optional", lambda n: field(n, "char", optional="true"))
    one("opt:str", "optional", lambda n: field(n, "string", optional="true"))
    one("opt:str3p", "optional", lambda n: field(n, "string", length="3", padded="true", optional="true"))
    one("opt:P", "optional", lambda n: field(n, "P", optional="true"))
    one("opt:E1", "optional", lambda n: field(n, "E1", optional="true"))
    one("opt:arr", "optional", lambda n: array(n, "char", optional="true"))
    one("opt:arr2", "optional", lambda n: array(n, "char", length="2", optional="true"))
    one("opt:str2", "optional", lambda n: field(n, "string", length="2", optional="true"))
    # length pairs
    def pair(tid, mk):
        t.append(_T(tid, 2, mk, "length pairs"))

    pair("len:str", lambda nm: (lambda l: [length(l, "char"), field(nm(), "string", length=l)])(nm()))
    pair("len:str+1", lambda nm: (lambda l: [length(l, "char", offset="1"), field(nm(), "string", length=l)])(nm()))
    pair("len:str-1", lambda nm: (lambda l: [length(l, "char", offset="-1"), field(nm(), "string", length=l)])(nm()))
    pair("len:estr", lambda nm: (lambda l: [length(l, "byte"), field(nm(), "encoded_string", length=l)])(nm()))
    pair("len:arr", lambda nm: (lambda l: [length(l, "char"), array(nm(), "char", length=l)])(nm()))
    pair("len:arrP", lambda nm: (lambda l: [length(l, "char"), array(nm(), "P", length=l)])(nm()))
    pair("len:darrU", lambda nm: (lambda l: [length(l, "char"), array(nm(), "U", length=l, delimited="true")])(nm()))
    pair("len:darrU-nt", lambda nm: (lambda l: [length(l, "char"), array(nm(), "U", length=l, delimited="true", trailing_delimiter="false")])(nm()))
    pair("optlen:str", lambda nm: (lambda l: [length(l, "char", optional="true"), field(nm(), "string", length=l, optional="true")])(nm()))
    pair("optlen:arr", lambda nm: (lambda l: [length(l, "char", optional="true"), array(nm(), "short", length=l, optional="true")])(nm()))
    pair("len:str:pad", lambda nm: (lambda l: [length(l, "char"), field(nm(), "string", length=l, padded="true")])(nm()))
    pair("len:three", lambda nm: (lambda l: [length(l, "three", offset="2"), field(nm(), "encoded_string", length=l)])(nm()))
    t.append(_T("len:sep", 3, lambda nm: (lambda l: [length(l, "char"), field(nm(), "short"), field(nm(), "string", length=l)])(nm()), "length pairs"))
    # arrays
    one("arr:char", "arrays", lambda n: array(n, "char"))
    one("arr:char2", "arrays", lambda n: array(n, "char", length="2"))
    one("arr:P", "arrays", lambda n: array(n, "P"))
    one("arr:V", "arrays", lambda n: array(n, "V"))
    one("arr:F", "arrays", lambda n: array(n, "F"))
    one("arr:E1", "arrays", lambda n: array(n, "E1"))
    for el in ("U", "char", "K"):
        one(f"darr:{el}", "arrays", lambda n, el=el: array(n, el, delimited="true"))
        one(f"darr:{el}:t", "arrays", lambda n, el=el: array(n, el, delimited="true", trailing_delimiter="true"))
        one(f"darr:{el}:nt", "arrays", lambda n, el=el: array(n, el, delimited="true", trailing_delimiter="false"))
    one("darr:str", "arrays", lambda n: array(n, "string", delimited="true"))
    one("darr:estr:nt", "arrays", lambda n: array(n, "encoded_string", delimited="true", trailing_delimiter="false"))
    one("darr:KK", "arrays", lambda n: array(n, "KK", delimited="true"))
    one("arr:bool", "arrays", lambda n: array(n, "bool:short"))
    one("arr:W", "arrays", lambda n: array(n, "W"))
    one("darr:U2", "arrays", lambda n: array(n, "U", delimited="true", length="2"))
    one("darr:U2:nt", "arrays", lambda n: array(n, "U", delimited="true", length="2", trailing_delimiter="false"))
    # dummy, framing
    t.append(_T("dummy:char", 1, lambda nm: [dummy("char", "0")], "dummy"))
    t.append(_T("dummy:str", 1, lambda nm: [dummy("string", "N")], "dummy"))
    t.append(_T("dummy:str-after-comment", 1, lambda nm: [N("dummy", {"type": "string"}, [N("comment", text="filler")], text="NO", text_last=True)], "dummy"))
    t.append(_T("dummy:str-esc", 1, lambda nm: [dummy("string", '\\"')], "dummy"))
    t.append(_T("break", 1, lambda nm: [brk()], "framing"))
    return t


RED_IDS = (
    "str", "opt:char", "dummy:char", "break", "len:str", "darr:U", "darr:U:nt", "struct:K", "arr:P", "int:char",
    "hc:str", "str3p", "int:E1", "estr", "int:byte",
)

MID_IDS = (
    "int:byte", "int:char", "int:int", "int:bool:short", "int:E1", "int:E1:short", "int:E3:char",
    "struct:P", "struct:V", "struct:U", "struct:K", "struct:O", "struct:F",
    "str", "estr", "blob", "str3p", "estr3p",
    "hc:char", "hc:str", "hcn:str", "hcn:bool", "hc:str-esc",
    "opt:char", "opt:str", "opt:P", "opt:arr", "opt:arr2",
    "len:str", "len:str-1", "len:arr", "len:darrU-nt", "optlen:str",
    "arr:char", "arr:P", "arr:V", "arr:F", "darr:U", "darr:U:nt", "darr:K", "darr:U2:nt", "darr:str",
    "dummy:char", "dummy:str", "break",
)
FLAG_IDS = ("opt:char", "dummy:char", "break", "int:char")
NEST_IDS = ("str", "int:char")
HOISTED_CHAR = (("char", "1", "2"), ("char", "1", "2", "hoist"))

SWITCH_SHAPES = ("one", "two", "case+default", "empty+default")
SWITCH_ON = (("char", "1", "2"), ("E1", "A", "B"), ("E2", "Big", "7"), ("byte", "1", "255"), ("E1:short", "A", "9"), ("three", "0", "64009"))


def _seqs(items, budget, max_items=None):
    """All sequences of items (each with a cost) with total cost <= budget, as lists of item lists."""
    out = [[]]
    if budget <= 0:
        return out
    for it in items:
        if it["cost"] <= budget:
            for rest in _seqs(items, budget - it["cost"]):
                out.append([it] + rest)
    return out


class BodyShape:
    """A body as a nested structure of template references (instantiated lazily with fresh names)."""

    def __init__(self, items):
        self.items = items  # list of ('leaf', template) | ('chunked', BodyShape) | ('switch', on, shape, [BodyShape, BodyShape])

    def cost(self):
        c = 0
        for it in self.items:
            if it[0] == "leaf":
                c += it[1]["cost"]
            elif it[0] == "chunked":
                c += 1 + it[1].cost()
            else:
                c += 2 + sum(b.cost() for b in it[3])
        return c

    def build(self, nm=None):
        nm = nm or Namer()
        out = []
        hoisted = {}
        for idx, it in enumerate(self.items):
            if it[0] == "switch" and len(it[1]) > 3:
                # the switch field is declared at the start of the body, not immediately before its switch
                hoisted[idx] = nm()
                out.append(field(hoisted[idx], it[1][0]))
        for idx, it in enumerate(self.items):
            if it[0] == "leaf":
                out += it[1]["make"](nm)
            elif it[0] == "chunked":
                out.append(chunked(it[1].build(nm)))
            else:
                _, on, shape, bodies = it
                typ, v1, v2 = on[:3]
                if idx in hoisted:
                    k = hoisted[idx]
                else:
                    k = nm()
                    out.append(field(k, typ))
                b1 = bodies[0].build(nm)
                b2 = bodies[1].build(nm)
                if shape == "one":
                    cases = [case(v1, b1)]
                elif shape == "two":
                    cases = [case(v1, b1), case(v2, [])]
                elif shape == "case+default":
                    cases = [case(v1, b1), case(None, b2, default=True)]
                else:
                    cases = [case(v1, []), case(None, b2, default=True)]
                out.append(switch(k, cases))
        return out

    def ident(self):
        parts = []
        for it in self.items:
            if it[0] == "leaf":
                parts.append(it[1]["id"])
            elif it[0] == "chunked":
                parts.append("chunked[" + it[1].ident() + "]")
            else:
                parts.append(f"switch<{it[1][0]},{it[2]}{',hoisted' if len(it[1]) > 3 else ''}>[" + "|".join(b.ident() for b in it[3]) + "]")
        return " ; ".join(parts)


def enumerate_bodies(templates, budget, switch_on=SWITCH_ON, memo=None):
    """G(budget): every BodyShape with total cost <= budget."""
    memo = {} if memo is None else memo
    key = (tuple(t["id"] for t in templates), budget, tuple(switch_on))
    if key in memo:
        return memo[key]
    out = [BodyShape([])]
    if budget > 0:
        # first item, then the rest of the body
        firsts = []
        for t in templates:
            if t["cost"] <= budget:
                firsts.append((t["cost"], ("leaf", t)))
        for inner in enumerate_bodies(templates, budget - 1, switch_on, memo):
            firsts.append((1 + inner.cost(), ("chunked", inner)))
        if budget >= 2:
            for on in switch_on:
                for shape in SWITCH_SHAPES:
                    for b1 in enumerate_bodies(templates, budget - 2, switch_on, memo):
                        if shape == "empty+default" and b1.items:
                            continue
                        rem = budget - 2 - b1.cost()
                        b2s = enumerate_bodies(templates, rem, switch_on, memo) if shape in ("case+default", "empty+default") else [BodyShape([])]
                        for b2 in b2s:
                            firsts.append((2 + b1.cost() + b2.cost(), ("switch", on, shape, [b1, b2])))
        for cost, first in firsts:
            for rest in enumerate_bodies(templates, budget - cost, switch_on, memo):
                out.append(BodyShape([first] + rest.items))
    memo[key] = out
    return out


def grammar(tier):
    """The body set of a tier: G(2) u G_red(3)  /  G(3 over a mid alphabet) u G_red(4)."""
    temps = leaf_templates()
    red = [t for t in temps if t["id"] in RED_IDS]
    seen, out = set(), []

    def add(shapes):
        for s in shapes:
            i = s.ident()
            if i not in seen:
                seen.add(i)
                out.append(s)

    # G_flag: the interplay of the generator's context flags (optional reached, dummy reached, chunked, switch
    # inheritance) over a 4-template alphabet, two nodes deeper than the general grammar
    flag = [t for t in temps if t["id"] in FLAG_IDS]
    # G_nest: container nesting (chunked x switch x case bodies) around an unbounded string and a char
    nest = [t for t in temps if t["id"] in NEST_IDS]
    if tier == "quick":
        add(enumerate_bodies(temps, 2))
        add(enumerate_bodies(red, 3, switch_on=SWITCH_ON[:2]))
        add(enumerate_bodies(flag, 4, switch_on=HOISTED_CHAR))
        add(enumerate_bodies(nest, 4, switch_on=HOISTED_CHAR))
    else:
        add(enumerate_bodies(flag, 5, switch_on=HOISTED_CHAR))
        add(enumerate_bodies(nest, 5, switch_on=HOISTED_CHAR))
        add(enumerate_bodies(temps, 2))
        add(enumerate_bodies(red, 4, switch_on=SWITCH_ON[:2]))
        mid = [t for t in temps if t["id"] in MID_IDS]
        add(enumerate_bodies(mid, 3, switch_on=SWITCH_ON[:1]))
    return out
