"""Section 5.2: value domains for a unit, and the adaptor between value trees and generated objects."""

import importlib
import itertools

from . import loader
from .refsem import case_key, pick_case
from .specs import instructions
from .xtypes import INT_LIMITS, is_bool_attr, resolve

P1, P2, P3, P4 = 253, 253**2, 253**3, 253**4
INT_DOM = {"byte": (0, 254, 255), "char": (0, 1, 252), "short": (0, 253, P2 - 1), "three": (0, P2, P3 - 1), "int": (0, P3, P4 - 1)}
# "é\x85": every character is below U+0100 but U+0085 is not a windows-1252 character (its image is '?')
STR_DOM = ("", "a", "ab~", "é\x85", "€Ā", "ÿy")
BLOB_DOM = (b"", b"\x00\xff", b"ab")


def pascal(name):
    out, up = "", True
    for c in name:
        if c == "_":
            up = True
            continue
        out += c.upper() if up else c.lower()
        up = False
    return out


def unrecognized_ordinal(env, t):
    declared = {v for _, v in env.enum_values(t.name)}
    for cand in (5, 7, 9, 200, 33):
        if cand not in declared and cand < INT_LIMITS[t.under]:
            return cand
    raise loader.HarnessError("no free ordinal")


def scalar_domain(t, node, env, small=False):
    """Domain of one non-array item (node may carry length/padded attributes)."""
    if t.kind == "int":
        d = INT_DOM[t.name]
    elif t.kind == "bool":
        d = (False, True)
    elif t.kind == "enum":
        # declared members, a small unrecognized ordinal, and the largest ordinal the (possibly overridden) wire type holds
        d = tuple(v for _, v in env.enum_values(t.name) if v < INT_LIMITS[t.under]) + (unrecognized_ordinal(env, t), INT_LIMITS[t.under] - 1)
        d = tuple(dict.fromkeys(d))
    elif t.kind == "string":
        ref = node.get("length") if node is not None and node.tag == "field" else None
        if ref is None:
            d = STR_DOM
        elif ref.isdigit():
            n = int(ref)
            full = tuple(s for s in ("abcdefgh"[:n], ("a~ÿ" + "x" * n)[:n], ("€Ā" + "y" * n)[:n]))
            if is_bool_attr(node, "padded"):
                d = ("",) + tuple(dict.fromkeys(("a"[:n], "abcdefgh"[: max(0, n - 1)], "ÿ"[:n]))) + full[:2]  # odd and even padding counts
                d = tuple(dict.fromkeys(d))
            else:
                d = tuple(dict.fromkeys(full))
        else:
            d = None  # handled by the caller (depends on the length field's offset)
    elif t.kind == "blob":
        d = BLOB_DOM
    else:
        d = tuple(struct_domain(t.name, env))
    if small and d is not None and len(d) > 2:
        # strings keep a y-diaeresis value (visible to sanitisation and chunk framing) AND a value without one
        # (and the plain value must round-trip losslessly everywhere, or C01 is left with the empty string only)
        d = (d[0], d[1], d[-1]) if t.kind == "string" and d is STR_DOM else (d[0], d[-1])
    return d


_struct_dom_cache = {}


def struct_domain(name, env, cap=4):
    key = (id(env), name)
    if key not in _struct_dom_cache:
        vals = list(itertools.islice(enumerate_values(env.structs[name], env, cap=64, small=True), 64))
        if len(vals) > cap:
            step = max(1, len(vals) // cap)
            vals = vals[::step][: cap - 1] + [vals[-1]]
        _struct_dom_cache[key] = vals
    return _struct_dom_cache[key]


def _scope_nodes(unit):
    out = []

    def walk(n):
        for ins in instructions(n):
            if ins.tag == "chunked":
                walk(ins)
            else:
                out.append(ins)

    walk(unit)
    return out


def item_domain(ins, env, scope, small):
    """Domain of a named field/array instruction (None for items that carry no object value)."""
    t = resolve(ins.get("type"), env)
    opt = is_bool_attr(ins, "optional")
    if ins.tag == "field":
        if ins.get("name") is None:
            return None
        if ins.text is not None:
            from .refsem import literal_value

            return (literal_value(t, ins.text),)
        d = scalar_domain(t, ins, env, small)
        if d is None:  # string whose length comes from a length field
            ln = scope[ins.get("length")]
            off = int(ln.get("offset", "0"))
            d = tuple(s for s in ("", "a", "aÿ", "ab~") if len(s) >= max(0, off))
            if small:
                d = (d[0], d[-1])
    else:
        el = scalar_domain(t, None, env, small=True)
        if t.kind == "string":
            el = ("a", "", "ÿ~")
        ref = ins.get("length")
        if ref is not None and ref.isdigit():
            n = int(ref)
            d = tuple(tuple(c) for c in itertools.islice(itertools.product(el, repeat=n), 4))
        else:
            lo = 0
            if ref is not None:
                lo = max(0, int(scope[ref].get("offset", "0")))
            d = []
            for n in (0, 1, 2):
                if n < lo:
                    continue
                if n == 0:
                    d.append(())
                elif n == 1:
                    d += [(e,) for e in el[:2]]
                else:
                    d += [(el[0], el[-1]), (el[-1], el[-1])]
            d = tuple(d)
            if small:
                d = (d[0], d[-1])
    if opt:
        d = (None,) + tuple(d)
    return d


def enumerate_values(unit, env, cap=256, small=False):
    """Yield value trees (dicts) for a unit; the product is complete unless cut (then `small` domains)."""
    nodes = _scope_nodes(unit)
    scope = {n.get("name"): n for n in nodes if n.tag in ("field", "array", "length") and n.get("name")}

    def size(small_):
        total = 1
        for ins in nodes:
            if ins.tag in ("field", "array"):
                d = item_domain(ins, env, scope, small_)
                if d is not None:
                    total *= len(d)
            if total > 10**7:
                break
        return total

    if not small and size(False) > cap:
        small = True

    def rec(i, partial):
        if i == len(nodes):
            yield dict(partial)
            return
        ins = nodes[i]
        if ins.tag in ("field", "array"):
            d = item_domain(ins, env, scope, small)
            if d is None:
                yield from rec(i + 1, partial)
                return
            for v in d:
                partial[ins.get("name")] = v
                yield from rec(i + 1, partial)
            del partial[ins.get("name")]
        elif ins.tag == "switch":
            fname = ins.get("field")
            fnode = scope[fname]
            ft = resolve(fnode.get("type"), env)
            c = pick_case(ins, env, ft, partial.get(fname)) if partial.get(fname) is not None else None
            key = fname + "_data"
            if c is None or not instructions(c):
                partial[key] = None
                yield from rec(i + 1, partial)
            else:
                for sub in itertools.islice(enumerate_values(c, env, cap=16, small=True), 16):
                    sub = dict(sub)
                    sub["__case__"] = case_key(c)
                    partial[key] = sub
                    yield from rec(i + 1, partial)
            partial.pop(key, None)
        else:
            yield from rec(i + 1, partial)

    yield from itertools.islice(rec(0, {}), cap)


# ================================================================ adaptor to generated classes
class Adaptor:
    """Builds generated objects from value trees and observes generated objects as value trees."""

    def __init__(self, env, type_modules):
        self.env = env
        self.type_modules = type_modules  # type name -> module path of its generated class
        self._cls = {}

    def type_class(self, name):
        if name not in self._cls:
            if name not in self.type_modules:
                raise loader.HarnessError(f"no module known for generated type {name}")
            mod = importlib.import_module(self.type_modules[name])
            self._cls[name] = getattr(mod, name)
        return self._cls[name]

    # ---- build
    def build(self, cls, unit, val):
        kwargs = {}
        nodes = _scope_nodes(unit)
        scope = {n.get("name"): n for n in nodes if n.get("name")}
        for ins in nodes:
            if ins.tag in ("field", "array") and ins.get("name") is not None:
                name = ins.get("name")
                t = resolve(ins.get("type"), self.env)
                v = val.get(name)
                if ins.tag == "array":
                    kwargs[name] = None if v is None else [self._conv(t, e) for e in v]
                else:
                    kwargs[name] = self._conv(t, v)
            elif ins.tag == "switch":
                fname = ins.get("field")
                data = val.get(fname + "_data")
                if data is None:
                    kwargs[fname + "_data"] = None
                else:
                    c = next(c for c in ins.kids if c.tag == "case" and case_key(c) == data["__case__"])
                    ccls = self.case_class(cls, fname, c)
                    kwargs[fname + "_data"] = self.build(ccls, c, data)
        return cls(**kwargs)

    def case_class(self, cls, fname, c):
        suffix = "Default" if is_bool_attr(c, "default") else c.get("value")
        return getattr(cls, pascal(fname) + "Data" + suffix)

    def _conv(self, t, v):
        if v is None:
            return None
        if t.kind == "enum":
            return self.type_class(t.name)(v)
        if t.kind == "struct":
            if not isinstance(v, dict):
                return v
            return self.build(self.type_class(t.name), self.env.structs[t.name], v)
        return v

    # ---- observe
    def observe(self, obj, cls, unit, with_size=True):
        out = {}
        nodes = _scope_nodes(unit)
        for ins in nodes:
            if ins.tag in ("field", "array") and ins.get("name") is not None:
                name = ins.get("name")
                t = resolve(ins.get("type"), self.env)
                v = getattr(obj, name)
                if ins.tag == "array":
                    if v is None:
                        out[name] = None
                    elif not isinstance(v, tuple):
                        out[name] = ("!type", type(v).__name__)
                    else:
                        out[name] = tuple(self._obs(t, e) for e in v)
                else:
                    out[name] = self._obs(t, v)
            elif ins.tag == "switch":
                fname = ins.get("field")
                data = getattr(obj, fname + "_data")
                if data is None:
                    out[fname + "_data"] = None
                    continue
                found = None
                for c in ins.kids:
                    if c.tag == "case" and instructions(c) and type(data) is self.case_class(cls, fname, c):
                        found = c
                if found is None:
                    out[fname + "_data"] = ("!type", type(data).__name__)
                else:
                    sub = self.observe(data, type(data), found, with_size)
                    sub["__case__"] = case_key(found)
                    out[fname + "_data"] = sub
        if with_size:
            out["byte_size"] = obj.byte_size
        return out

    def _obs(self, t, v):
        if v is None:
            return None
        if t.kind == "enum":
            if not isinstance(v, self.type_class(t.name)):
                return ("!type", type(v).__name__)
            if v.name not in dict(self.env.enum_values(t.name)) and v.name != "None_" and v.name != f"Unrecognized({int(v)})":
                return ("!name", v.name)
            return int(v)
        if t.kind == "struct":
            c = self.type_class(t.name)
            if type(v) is not c:
                return ("!type", type(v).__name__)
            return self.observe(v, c, self.env.structs[t.name])
        if t.kind == "bool":
            return v if isinstance(v, bool) else ("!type", type(v).__name__)
        if t.kind == "int":
            return v if isinstance(v, int) and not isinstance(v, bool) else ("!type", type(v).__name__)
        if t.kind == "string":
            return v if isinstance(v, str) else ("!type", type(v).__name__)
        if t.kind == "blob":
            return bytes(v) if isinstance(v, (bytes, bytearray)) else ("!type", type(v).__name__)
        return v


def strip_sizes(v):
    """Value tree without byte_size entries (for comparing constructed values with deserialized ones)."""
    if isinstance(v, dict):
        return {k: strip_sizes(x) for k, x in v.items() if k != "byte_size"}
    if isinstance(v, tuple):
        return tuple(strip_sizes(x) for x in v)
    return v


def richness(v):
    """Score used to pick the most 'eventful' value of a domain: y-diaeresis strings, long arrays, present optionals."""
    if isinstance(v, dict):
        return sum(richness(x) for x in v.values())
    if isinstance(v, tuple):
        return 2 * len(v) + sum(richness(x) for x in v)
    if isinstance(v, str):
        return 3 * v.count("ÿ") + (1 if v else 0)
    if v is None:
        return -1
    return 0


def rich_values(unit, env, n=2, cap=256):
    """The first value of the domain plus the n-1 richest ones (deterministic)."""
    vals = list(enumerate_values(unit, env, cap=cap))
    if not vals:
        return []
    ranked = sorted(range(len(vals)), key=lambda i: (-richness(vals[i]), i))
    picked = [0] + [i for i in ranked if i != 0][: n - 1]
    return [vals[i] for i in picked]


def boundary_values(unit, env, base, short_too=False):
    """Variants of a value tree `base` in which one item measured by a length field sits at the edge of what that length
    field can carry: the longest length it admits (largest wire value + offset) and the shortest (wire value 0).
    Length fields of type byte/char always; short only when asked (64k-element items).  The caller filters by the
    reference semantics, so variants the format does not admit are simply not in the domain."""
    from .xtypes import INT_MAXVAL

    nodes = _scope_nodes(unit)
    scope = {n.get("name"): n for n in nodes if n.tag in ("field", "array", "length") and n.get("name")}
    for ins in nodes:
        if ins.tag not in ("field", "array") or ins.get("name") is None:
            continue
        ref = ins.get("length")
        if ref is None or ref.isdigit() or ref not in scope:
            continue
        ln = scope[ref]
        lt = ln.get("type")
        if lt not in ("byte", "char") and not (short_too and lt == "short"):
            continue
        off = int(ln.get("offset", "0"))
        t = resolve(ins.get("type"), env)
        cur = base.get(ins.get("name"))
        for n in dict.fromkeys((INT_MAXVAL[lt] + off, max(0, off))):
            if n < 0:
                continue
            if ins.tag == "field":
                if t.kind != "string":
                    continue
                new = ("ab" * n)[:n]
            else:
                el = scalar_domain(t, None, env, small=True)
                if t.kind == "string" or not el:
                    continue
                filler = cur[0] if cur else el[0]
                new = (filler,) * n
            if new == cur:
                continue
            out = dict(base)
            out[ins.get("name")] = new
            yield (f"len({ins.get('name')})={n}", out)
