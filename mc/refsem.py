"""M10: the reference semantics of an XML body (DESIGN Appendix C).

ser(unit) / de(unit) walk the XML tree instruction by instruction on the reference writer/reader
(M4/M3).  Objects are plain value trees:
    struct / packet / case data : dict  field name -> value,  '<switch field>_data' -> None | CaseData
    CaseData                    : {'__case__': key, **fields}   (key = case value text or 'default')
    array -> tuple, enum/int -> int, bool -> bool, string -> str, blob -> bytes, absent optional -> None
Never executes generated code and imports nothing from eolib or the generator.
"""

from .refmodels import RefReader, RefWriter
from .specs import instructions
from .xtypes import INT_MAXVAL, bounded, fixed_size, is_bool_attr, resolve


class SerError(Exception):
    """The object violates its declaration (the generated code must raise SerializationError)."""


class Unspecified(Exception):
    """The format assigns no meaning to this (spec, value) pair; never judged."""


def case_key(c):
    return "default" if is_bool_attr(c, "default") else c.get("value")


def pick_case(sw, env, field_type, value):
    """First case whose value equals the switch field (ints by value, enums by ordinal), else default."""
    default = None
    for c in sw.kids:
        if c.tag != "case":
            continue
        if is_bool_attr(c, "default"):
            default = default or c
            continue
        v = c.get("value")
        if field_type.kind == "enum":
            named = dict(env.enum_values(field_type.name))
            target = named[v] if v in named else int(v)
        else:
            target = int(v)
        if value == target:
            return c
    return default


def _scope_fields(unit):
    """name -> node for every field/array/length of a unit's scope (chunked children included)."""
    out = {}

    def walk(n):
        for ins in instructions(n):
            if ins.tag in ("field", "array", "length") and ins.get("name"):
                out[ins.get("name")] = ins
            elif ins.tag == "chunked":
                walk(ins)

    walk(unit)
    return out


def _length_refs(unit):
    """length field name -> referencing field/array node"""
    out = {}
    fields = _scope_fields(unit)
    for n in fields.values():
        ref = n.get("length")
        if n.tag in ("field", "array") and ref is not None and not ref.isdigit():
            out[ref] = n
    return out


def literal_value(t, text):
    if t.kind == "int":
        return int(text)
    if t.kind == "bool":
        return {"true": True, "false": False}[text]
    if t.kind == "string":
        return text
    raise Unspecified("literal of non-basic type")


# ================================================================ serialisation
class Ser:
    def __init__(self, env):
        self.env = env

    def unit(self, unit, obj, W, in_chunked=False):
        # "optional items are written until the first absent one" is a per-unit, per-chunk-segment rule:
        # a case body starts afresh and does not report back to the unit that holds the switch
        saved = W.san
        try:
            ctx = {"start": len(W), "missing": False, "scope": _scope_fields(unit), "refs": _length_refs(unit), "obj": obj}
            self.body(unit, ctx, W, in_chunked)
        finally:
            W.san = saved

    def body(self, node, ctx, W, in_chunked):
        for ins in instructions(node):
            tag = ins.tag
            if tag == "field":
                self.field(ins, ctx, W)
            elif tag == "array":
                self.array(ins, ctx, W)
            elif tag == "length":
                self.length(ins, ctx, W)
            elif tag == "dummy":
                if len(W) == ctx["start"]:
                    t = resolve(ins.get("type"), self.env)
                    self.write_value(t, literal_value(t, ins.text), W, None, False)
            elif tag == "chunked":
                if not in_chunked:
                    W.san = True
                    self.body(ins, ctx, W, True)
                    W.san = False
                else:
                    self.body(ins, ctx, W, True)
            elif tag == "break":
                W.add_byte(0xFF)
                ctx["missing"] = False
            elif tag == "switch":
                self.switch(ins, ctx, W, in_chunked)

    # ---- helpers
    def _optional_skip(self, ins, v, ctx):
        if is_bool_attr(ins, "optional"):
            ctx["missing"] = ctx["missing"] or v is None
            return ctx["missing"]
        return False

    def _length_limit(self, ins, ctx):
        """-> ('exact', N) | ('max', N) | None"""
        ref = ins.get("length")
        if ref is None:
            return None
        if ref.isdigit():
            return ("max" if is_bool_attr(ins, "padded") and ins.tag == "field" else "exact", int(ref))
        ln = ctx["scope"][ref]
        return ("max", INT_MAXVAL[ln.get("type")] + int(ln.get("offset", "0")))

    def field(self, ins, ctx, W):
        t = resolve(ins.get("type"), self.env)
        name = ins.get("name")
        if ins.text is not None:
            lit = literal_value(t, ins.text)
            self.write_value(t, lit, W, ins, True)
            return
        v = ctx["obj"].get(name)
        if self._optional_skip(ins, v, ctx):
            return
        if v is None:
            raise SerError(f"{name} must be provided")
        lim = self._length_limit(ins, ctx)
        if lim is not None:
            if (lim[0] == "exact" and len(v) != lim[1]) or (lim[0] == "max" and len(v) > lim[1]):
                raise SerError(f"length of {name}")
        self.write_value(t, v, W, ins, False)

    def write_value(self, t, v, W, ins, literal):
        if t.kind == "int":
            W.add_number(t.name, v)
        elif t.kind == "bool":
            W.add_number(t.under, 1 if v else 0)
        elif t.kind == "enum":
            W.add_number(t.under, int(v))
        elif t.kind == "string":
            enc = t.name == "encoded_string"
            ref = ins.get("length") if ins is not None and ins.tag == "field" else None
            if ref is None:
                (W.add_encoded_string if enc else W.add_string)(v)
            else:
                n = int(ref) if ref.isdigit() else len(v)
                padded = is_bool_attr(ins, "padded")
                (W.add_fixed_encoded_string if enc else W.add_fixed_string)(v, n, padded)
        elif t.kind == "blob":
            W.add_bytes(bytes(v))
        else:
            if not isinstance(v, dict):
                raise Unspecified("struct value of the wrong Python type")
            self.unit(self.env.structs[t.name], v, W, in_chunked=False)

    def length(self, ins, ctx, W):
        name = ins.get("name")
        ref = ctx["refs"].get(name)
        if ref is None:
            raise Unspecified("unreferenced length field")
        v = ctx["obj"].get(ref.get("name"))
        if is_bool_attr(ins, "optional"):
            # an optional length field is absent exactly when the field it measures is absent
            ctx["missing"] = ctx["missing"] or v is None
            if ctx["missing"]:
                return
        if v is None:
            raise Unspecified("length of an absent optional field")
        n = len(v) - int(ins.get("offset", "0"))
        if n < 0:
            raise Unspecified("length below the offset")
        W.add_number(ins.get("type"), n)

    def array(self, ins, ctx, W):
        t = resolve(ins.get("type"), self.env)
        name = ins.get("name")
        v = ctx["obj"].get(name)
        if self._optional_skip(ins, v, ctx):
            return
        if v is None:
            raise SerError(f"{name} must be provided")
        lim = self._length_limit(ins, ctx)
        if lim is not None:
            if (lim[0] == "exact" and len(v) != lim[1]) or (lim[0] == "max" and len(v) > lim[1]):
                raise SerError(f"length of {name}")
        delimited = is_bool_attr(ins, "delimited")
        trailing = is_bool_attr(ins, "trailing-delimiter", True)
        for i, el in enumerate(v):
            if delimited and not trailing and i > 0:
                W.add_byte(0xFF)
            if el is None:
                raise Unspecified("None element")
            self.write_value(t, el, W, None, False)
            if delimited and trailing:
                W.add_byte(0xFF)

    def switch(self, sw, ctx, W, in_chunked):
        fname = sw.get("field")
        fnode = ctx["scope"][fname]
        ft = resolve(fnode.get("type"), self.env)
        if fnode.text is not None:
            fv = literal_value(ft, fnode.text)
        else:
            fv = ctx["obj"].get(fname)
        data = ctx["obj"].get(fname + "_data")
        c = pick_case(sw, self.env, ft, fv)
        if c is None:
            if data is not None:
                raise Unspecified("case data for a value that has neither a case nor a default")
            return
        if not instructions(c):
            if data is not None:
                raise SerError("expected no case data")
            return
        if not isinstance(data, dict) or data.get("__case__") != case_key(c):
            raise SerError("case data of the wrong kind")
        self.unit(c, data, W, in_chunked=in_chunked)


def serialize(env, unit, obj, sanitize=False):
    """-> bytes, or raises SerError / ValueError (range) / Unspecified."""
    W = RefWriter()
    W.san = sanitize
    Ser(env).unit(unit, obj, W)
    if W.san != sanitize:
        raise AssertionError("reference semantics must restore the mode")
    return bytes(W.buf)


# ================================================================ deserialisation
class De:
    def __init__(self, env):
        self.env = env
        self.steps = 0

    def unit(self, unit, R, in_chunked=False, case=None):
        saved = R.chunked
        try:
            ctx = {"start": R.pos, "obj": {}, "lens": {}, "scope": _scope_fields(unit)}
            if case is not None:
                ctx["obj"]["__case__"] = case
            self.body(unit, ctx, R, in_chunked)
            ctx["obj"]["byte_size"] = R.pos - ctx["start"]
            return ctx["obj"]
        finally:
            R.chunked = saved

    def body(self, node, ctx, R, in_chunked):
        for ins in instructions(node):
            tag = ins.tag
            if tag == "field":
                self.field(ins, ctx, R)
            elif tag == "array":
                self.array(ins, ctx, R)
            elif tag == "length":
                if is_bool_attr(ins, "optional") and R.remaining <= 0:
                    ctx["lens"][ins.get("name")] = None
                else:
                    ctx["lens"][ins.get("name")] = R.get_number(ins.get("type")) + int(ins.get("offset", "0"))
            elif tag == "dummy":
                if R.pos == ctx["start"]:
                    self.read_value(resolve(ins.get("type"), self.env), R, None, ctx)
            elif tag == "chunked":
                if not in_chunked:
                    R.chunked = True
                    self.body(ins, ctx, R, True)
                    R.chunked = False
                else:
                    self.body(ins, ctx, R, True)
            elif tag == "break":
                R.next_chunk()
            elif tag == "switch":
                self.switch(ins, ctx, R, in_chunked)

    def field(self, ins, ctx, R):
        t = resolve(ins.get("type"), self.env)
        name = ins.get("name")
        if is_bool_attr(ins, "optional") and R.remaining <= 0:
            ctx["obj"][name] = None
            return
        v = self.read_value(t, R, ins, ctx)
        if name is not None:
            ctx["obj"][name] = literal_value(t, ins.text) if ins.text is not None else v

    def read_value(self, t, R, ins, ctx):
        self.steps += 1
        if t.kind == "int":
            return R.get_number(t.name)
        if t.kind == "bool":
            return R.get_number(t.under) != 0
        if t.kind == "enum":
            return R.get_number(t.under)
        if t.kind == "string":
            enc = t.name == "encoded_string"
            ref = ins.get("length") if ins is not None and ins.tag == "field" else None
            if ref is None:
                return R.get_encoded_string() if enc else R.get_string()
            n = int(ref) if ref.isdigit() else ctx["lens"][ref]
            if n is None:
                raise Unspecified("length field absent")
            padded = is_bool_attr(ins, "padded")
            return (R.get_fixed_encoded_string if enc else R.get_fixed_string)(n, padded)
        if t.kind == "blob":
            return bytes(R.read(R.remaining))
        return self.unit(self.env.structs[t.name], R, in_chunked=False)

    def array(self, ins, ctx, R):
        t = resolve(ins.get("type"), self.env)
        name = ins.get("name")
        if is_bool_attr(ins, "optional") and R.remaining <= 0:
            ctx["obj"][name] = None
            return
        delimited = is_bool_attr(ins, "delimited")
        trailing = is_bool_attr(ins, "trailing-delimiter", True)
        ref = ins.get("length")
        count = None
        if ref is not None:
            count = int(ref) if ref.isdigit() else ctx["lens"][ref]
            if count is None:
                raise Unspecified("length field absent")
        elif not delimited:
            size = fixed_size(t, self.env)
            if size is not None:
                if size == 0:
                    raise Unspecified("zero-size element")
                count = R.remaining // size
        out = []
        if count is not None:
            for i in range(max(0, count)):
                out.append(self.read_value(t, R, None, ctx))
                if delimited and (trailing or i + 1 < count):
                    R.next_chunk()
        else:
            while R.remaining > 0:
                before = (R.pos, R.chunk_start)
                out.append(self.read_value(t, R, None, ctx))
                if delimited:
                    R.next_chunk()
                if (R.pos, R.chunk_start) == before:
                    raise Unspecified("element consumed nothing: the loop would not terminate")
                if len(out) > 10000:
                    raise Unspecified("runaway array")
        ctx["obj"][name] = tuple(out)

    def switch(self, sw, ctx, R, in_chunked):
        fname = sw.get("field")
        fnode = ctx["scope"][fname]
        ft = resolve(fnode.get("type"), self.env)
        fv = ctx["obj"].get(fname)
        key = fname + "_data"
        ctx["obj"][key] = None
        if fv is None:
            return
        c = pick_case(sw, self.env, ft, fv)
        if c is None or not instructions(c):
            return
        ctx["obj"][key] = self.unit(c, R, in_chunked=in_chunked, case=case_key(c))


def deserialize(env, unit, data, chunked=False, offset=0):
    """-> (value tree, final position, final mode) or raises ValueError (negative fixed-string length)."""
    R = RefReader(data)
    R.pos = offset
    R.chunked = chunked
    obj = De(env).unit(unit, R)
    return obj, R.pos, R.chunked
