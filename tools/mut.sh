#!/bin/bash
# tools/mut.sh <patch.diff> [--no-tests] <ID> [<ID>...]
# Applies a patch to a scratch copy of /repo (never to /repo itself), runs the repository's own test
# suite on the copy (expects the 140 baseline tests to pass), then runs the named checks against the
# copy via VERIF_REPO.  Prints one line per check: CAUGHT / MISSED.
set -u
patch="$1"; shift
run_tests=1
if [ "${1:-}" = "--no-tests" ]; then run_tests=0; shift; fi
tier="${MUT_TIER:-quick}"
work=$(mktemp -d /tmp/mutwork-XXXXXX)
trap 'rm -rf "$work"' EXIT
rsync -a --exclude .git --exclude __pycache__ /repo/ "$work/"
if ! (cd "$work" && patch -p1 -s < "$patch"); then echo "PATCH-FAILED $patch"; exit 3; fi
if [ $run_tests = 1 ]; then
  out=$(cd "$work" && PYTHONDONTWRITEBYTECODE=1 PYTHONPATH="$work/src:$work" /venv/bin/python -m pytest -q -p no:cacheprovider --continue-on-collection-errors 2>&1 | tail -1)
  echo "TESTS: $out"
fi
cd /verif
for id in "$@"; do
  out=$(VERIF_REPO="$work" ./check "$id" --tier "$tier" 2>&1); rc=$?
  if [ $rc = 1 ]; then echo "CAUGHT $id: $(echo "$out" | grep -m1 violated | cut -c1-300)";
  elif [ $rc = 0 ]; then echo "MISSED $id";
  else echo "ERROR($rc) $id: $(echo "$out" | tail -3)"; fi
done
