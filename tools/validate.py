#!/usr/bin/env python3
"""Validates MANIFEST.json and every evidence file against the schemas (run with python3-vt)."""
import json, sys, glob, os
import jsonschema
ROOT = os.path.dirname(os.path.dirname(os.path.abspath(__file__)))
ok = True
def check(doc_path, schema_path):
    global ok
    try:
        jsonschema.validate(json.load(open(doc_path)), json.load(open(schema_path)))
        print("valid  ", doc_path)
    except Exception as e:
        ok = False
        print("INVALID", doc_path, str(e)[:300])
check(os.path.join(ROOT, "MANIFEST.json"), "/root/.vp/MANIFEST.schema.json")
for p in sorted(glob.glob(os.path.join(ROOT, "evidence", "*.json"))):
    check(p, "/root/.vp/EVIDENCE.schema.json")
sys.exit(0 if ok else 1)
