#!/bin/bash
# tools/seed_sweep.sh <seed>... : every quick check under several VERIF_SEED values, each from a fresh process
cd "$(dirname "$0")/.."
for s in "$@"; do
  for id in C01 C02 C03 C04 C05 C06 C07 C08 C09 C10 C11 C12 C13 C14 C15 C16 C17 C18 C19 C20; do
    out=$(VERIF_SEED=$s ./check $id --tier quick 2>&1); rc=$?
    echo "seed=$s $id rc=$rc $(echo "$out" | grep -c KNOWN-FINDING) known $(echo "$out" | tail -1 | cut -c1-90)"
    [ $rc != 0 ] && echo "$out" | grep -m3 "violated\|HARNESS" | cut -c1-300
  done
done
