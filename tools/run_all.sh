#!/bin/bash
# tools/run_all.sh <tier> [ids...]  - runs checks sequentially, prints one line per check
tier="${1:-quick}"; shift
ids="${@:-C01 C02 C03 C04 C05 C06 C07 C08 C09 C10 C11 C12 C13 C14 C15 C16 C17 C18 C19 C20}"
cd "$(dirname "$0")/.."
for id in $ids; do
  s=$(date +%s)
  out=$(./check $id --tier $tier 2>&1); rc=$?
  e=$(date +%s)
  echo "$id rc=$rc $((e-s))s $(echo "$out" | tail -1 | cut -c1-260)"
  if [ $rc != 0 ]; then echo "$out" | grep -m3 "violated\|HARNESS" | cut -c1-400; fi
done
