#!/usr/bin/env python3
"""Re-verifies every filed seed against the CURRENT /repo tree: patch applies to a scratch copy, the
repository's suite still passes, the demonstration still fails with / passes without the patch, and
the recorded checks still report it.  Updates seeded/<id>/meta.json (never touches /repo)."""
import glob, json, os, shutil, subprocess, sys, tempfile

ROOT = os.environ.get("VERIF_ROOT", "/verif")
env = dict(os.environ, PYTHONDONTWRITEBYTECODE="1")


def sh(cmd, cwd=None, extra=None):
    p = subprocess.run(cmd, shell=True, cwd=cwd, env=dict(env, **(extra or {})), capture_output=True, text=True)
    return p.returncode, p.stdout + p.stderr


def copy_repo():
    d = tempfile.mkdtemp(prefix="seedwork-", dir="/tmp")
    sh(f"rsync -a --exclude .git --exclude __pycache__ /repo/ {d}/")
    return d


head = sh("git -C /repo log --oneline | head -1")[1].split()[0]
jobs = int(os.environ.get("REVERIFY_JOBS", "3"))
only = [a for a in sys.argv[1:] if not a.startswith("--")]
skip_done = "--skip-done" in sys.argv  # seeds whose meta.json already records this repository head
clean = copy_repo()


def run_check(cid, mut, fast):
    extra = {"VERIF_REPO": mut}
    if fast:
        extra["VERIF_NO_OPTPASS"] = "1"
    rc, out = sh(f"./check {cid} --tier quick", cwd=ROOT, extra=extra)
    line = next((l for l in out.splitlines() if " violated" in l), "")
    return {"exit": rc, "verdict": "CAUGHT" if rc == 1 and "VIOLATION property=" in out else ("MISSED" if rc == 0 else f"ERROR({rc})"), "first_violation": line.strip()[:400]}


def verify(meta_path):
    d = os.path.dirname(meta_path)
    meta = json.load(open(meta_path))
    if only and meta["seed"] not in only:
        return None
    if skip_done and meta.get("reverified", {}).get("repo_head") == head:
        return None
    mut = copy_repo()
    try:
        rc, out = sh(f"patch -p1 -s < {d}/patch.diff", cwd=mut)
        if rc != 0:
            meta["reverified"] = {"repo_head": head, "patch_applies": False}
            json.dump(meta, open(meta_path, "w"), indent=1)
            return (False, f"{meta['seed']} PATCH DOES NOT APPLY to the current tree")
        _, t = sh(f"PYTHONPATH={mut}/src:{mut} /venv/bin/python -m pytest -q -p no:cacheprovider --continue-on-collection-errors tests 2>&1 | tail -1", cwd=mut)
        rc_clean, _ = sh(f"/venv/bin/python -B {d}/demo.py {clean}", cwd="/tmp")
        rc_mut, _ = sh(f"/venv/bin/python -B {d}/demo.py {mut}", cwd="/tmp")
        res = {}
        for cid in meta["checks"]:
            # first without the -OO repetition (half the work); a check that stays silent is run again in full
            r = run_check(cid, mut, True)
            if r["verdict"] != "CAUGHT":
                r = run_check(cid, mut, False)
            res[cid] = r
        caught_by = meta.get("caught_by") or meta["property"]
        ok = "140 passed" in t and rc_clean == 0 and rc_mut != 0 and res.get(caught_by, {}).get("verdict") == "CAUGHT"
        meta["checks"] = res
        meta["reverified"] = {"repo_head": head, "patch_applies": True, "repo_suite_with_patch": t.strip(), "demo_exit_unchanged": rc_clean, "demo_exit_patched": rc_mut}
        json.dump(meta, open(meta_path, "w"), indent=1)
        return (ok, f"{meta['seed']} {({c: r['verdict'] for c, r in res.items()})} | {t.strip()} | demo {rc_clean} {rc_mut}" + ("" if ok else "  <-- ATTENTION"))
    finally:
        shutil.rmtree(mut, ignore_errors=True)


bad = 0
try:
    from concurrent.futures import ThreadPoolExecutor

    with ThreadPoolExecutor(max_workers=jobs) as ex:
        for r in ex.map(verify, sorted(glob.glob(f"{ROOT}/seeded/*/meta.json"))):
            if r is None:
                continue
            ok, line = r
            print(line, flush=True)
            bad += 0 if ok else 1
finally:
    shutil.rmtree(clean, ignore_errors=True)
sys.exit(1 if bad else 0)
