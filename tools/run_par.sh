#!/bin/bash
# tools/run_par.sh <tier> <ID>... : the named checks concurrently (one line each when it ends)
tier="$1"; shift
cd "$(dirname "$0")/.."
for id in "$@"; do
  ( s=$(date +%s); out=$(./check "$id" --tier "$tier" 2>&1); rc=$?; e=$(date +%s); echo "$id rc=$rc $((e-s))s $(echo "$out" | grep -v WARNING | tail -1 | cut -c1-300)"; echo "$out" | grep "VIOLATION\|HARNESS-ERROR" | head -5 ) &
done
wait
