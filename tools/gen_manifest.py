#!/usr/bin/env python3
"""Regenerates /verif/MANIFEST.json from the registry below (keeps it valid at all times)."""

import json
import os

ROOT = os.path.dirname(os.path.dirname(os.path.abspath(__file__)))

BASELINE_OFF = (
    "cd /repo && /venv/bin/python -m pytest -ra -q -p no:cacheprovider --timeout=900 "
    "--continue-on-collection-errors"
)

# id -> (category, technique, level text, level note, design ref, engine)
CHECKS = {
    "C01": (
        "exploration",
        "bounded program x input enumeration: every valid spec body of the grammar (real generator) x every value the reference semantics round-trips; oracle = generated serialize/deserialize round trip only",
        "All M9-valid bodies of G(2) u G_red(3) (quick) / + G(3), G_red(4) (thorough) in struct and packet hosts plus a corpus, each with its complete bounded value domain; the round trip, exact consumption and byte_size at every level are checked on generated code alone.",
        "Domain membership (wire-unambiguous, non-lossy) is decided by reference semantics M10; specs beyond the node budget and values outside the domains are not explored.",
        "DESIGN.md section 6 C01",
        "E3",
    ),
    "C02": (
        "exploration",
        "bounded program x input enumeration with a differential oracle: generated serializer bytes vs independent reference interpreter of the XML (M10), both entry modes; boolean-attribute spelling variants regenerated and compared",
        "Every valid body x full value domain x both entry sanitisation modes byte-exact against M10; packets' family/action/write; every program regenerated with explicit/mixed-case boolean spellings.",
        "M10 is our reading of the eo-protocol rules (Appendix C); degenerate shapes excluded as the property states.",
        "DESIGN.md section 6 C02",
        "E3",
    ),
    "C03": (
        "exploration",
        "bounded program x input enumeration: every valid spec x every byte string up to a length bound + all 1-deviations of valid serializations, generated deserializer vs reference reading rules (M10 on M3)",
        "All byte strings over a 7-symbol alphabet up to length 2/3 (5-symbol up to 3/4) and every prefix/substitution/insertion/suffix deviation of valid serializations, under both entry modes and a non-initial reader: value tree, nested byte_size, position, mode, ValueError-only, termination.",
        "Bounded exhaustive only; the 'uniformly random bytes' clause is outside this family.",
        "DESIGN.md section 6 C03",
        "E3",
    ),
    "C04": (
        "model_checking",
        "explicit enumeration of all write histories up to depth 3/4 x matching read histories on the real EoWriter/EoReader (depth-bounded E1)",
        "Every sequence of typed writes from a ~100-op menu (+ trailing strings, length and padding ladders up to 65537 characters, and the character sweep: every Unicode code point and every base x combining-mark pair through every string method) is written and read back on the real classes; the output is also taken after every write, with a reader kept alive over it, and must still read back what had been written; the oracle is the property's own round-trip statement.",
        "Depth bound 3/4; menu values at digit boundaries; excluded characters exactly as the statement excludes.",
        "DESIGN.md section 6 C04",
        "E1",
    ),
    "C06": (
        "model_checking",
        "explicit enumeration of chunk lists (write histories) x per-chunk read plans on the real writer/reader",
        "All lists of 1-3 chunks over the stated field menu x every prefix/surplus read plan; in-prefix values and zero/empty surplus reads checked per execution, which implies isolation between chunks; plus the character sweep inside chunks, length ladders, lists read through slices, and lists written after a foreign unsanitised writer saw the same strings.",
        "Bounds: <=3 chunks, <=2 fields, <=2 surplus reads; surplus values after a partial prefix not judged.",
        "DESIGN.md section 6 C06",
        "E1",
    ),
    "C09": (
        "model_checking",
        "explicit enumeration of writer histories (full menu depth 2/3, reduced menu depth 4/5) in lockstep with the reference writer",
        "Every history over a 373-op menu incl. every type's limit for every numeric method, all string methods x lengths x padded, mode toggles at arbitrary points; after every step (len, bytes, mode) and accept/ValueError compared with M4; two live writers, argument forms, length/padding ladders to 65537 and the character sweep (all 1,114,112 code points + base x combining mark, both modes, all string methods).",
        "Reference M4; non-negative ints and str arguments; depth-bounded.",
        "DESIGN.md section 6 C09",
        "E1",
    ),
    "C05": (
        "model_checking",
        "explicit-state BFS to fixpoint over (real EoReader x reference reader) per data string; thorough adds TLC model + replay of every dumped edge",
        "Every reachable product state of the real reader and the documented chunked-reading model, for every data "
        "string over a 5/7-symbol alphabet up to length 4/5, under the full public op menu incl. slices of slices (judged "
        "behaviourally); parent/child independence pairs; unobserved 3-op histories with the data given as bytes, bytearray "
        "and memoryview; the TLC state graph of tla/ChunkedReader.tla replayed edge by edge on the real class and on the "
        "reference model; every data string of length 1-2 over all 256 byte values x every read op x both modes; long data (8..65537 bytes). A fixpoint is a statement about histories of every length over that data.",
        "Reference reader M3 is our transcription of the documented model; alphabet and length bound; Python 3.12.",
        "DESIGN.md section 6 C05, section 3 E1/E5",
        "E1",
    ),
    "C07": (
        "exploration",
        "exhaustive input sweep: all of [0,253^3) (quick) / all 4,097,152,081 EO ints (thorough) + all byte strings of length 0..3, against an odometer/positional reference",
        "Complete enumeration of the encode domain (thorough) and of every decode input up to 3 bytes; 4-byte decode over a reduced alphabet.",
        "Reference M1 is the property's positional formula; quick tier enumerates the 1-3 byte range completely and boundary sets + one seeded window of the 4-byte range.",
        "DESIGN.md section 6 C07",
        "E4",
    ),
    "C08": (
        "exploration",
        "exhaustive enumeration of (byte value x position x length) table and of all short strings over a boundary alphabet, against the closed-form reference",
        "Every byte value at every position of every length up to 17/40 and all strings up to length 5/7 over a 9-symbol boundary alphabet; byte-exact against M2 plus the stated algebra.",
        "Reference M2 transcribes the documented reflection; strings longer than the table bound are not explored.",
        "DESIGN.md section 6 C08",
        "E4",
    ),
    "C10": (
        "exploration",
        "exhaustive enumeration: every length 0..600/2000 for the permutations, all bytes/pairs for flip_msb, all divisibility patterns up to length 10/12 x every multiple, all 3-step pipelines",
        "Complete coverage of the stated finite input families for each primitive, compared with M5 and with the algebra in the property (inverse, involution, multiset, positions of non-multiples); multiples beyond the byte range and the complete (multiple, byte value) divisibility table.",
        "Reference M5 transcribes the docstrings; inputs beyond the enumerated families are not explored.",
        "DESIGN.md section 6 C10",
        "E4",
    ),
    "C11": (
        "exploration",
        "exhaustive sweep of all 16,194,277 challenges against the truncating-remainder reference",
        "The whole domain of the property is enumerated in both tiers.",
        "Reference M6 is the published formula with C-style remainder.",
        "DESIGN.md section 6 C11",
        "E4",
    ),
    "C12": (
        "exploration",
        "stateless DFS over every outcome of every random draw (scripted random source): 500,755 leaves",
        "All environment answers of the three generate() functions are enumerated; each leaf is judged for range, wire fit and reconstruction.",
        "Randomness is owned through the module-level random source; any other source stops the check.",
        "DESIGN.md section 6 C12",
        "E2",
    ),
    "C13": (
        "model_checking",
        "explicit-state BFS to fixpoint over (two real PacketSequencer peers x reference counter) + all histories to depth 12/14 without dedup; thorough adds TLC model + replay of every edge",
        "All reachable product states from every initial start over a finite start set built through every constructor "
        "path; peers in lockstep; several wrap-arounds covered without relying on state deduplication.",
        "Start values restricted to a finite set; reference M7 is the property's formula.",
        "DESIGN.md section 6 C13",
        "E1",
    ),
    "C14": (
        "model_checking",
        "explicit enumeration of construction histories (depth 3/4) over 4 hand-written enum classes x 17 integers on fresh classes and a freshly reloaded metaclass, and over 34 enums produced by the real generator (every underlying type, every declaration order of a 4-ordinal set, out-of-order and signed ordinals); public class snapshot compared after each step",
        "All histories up to the depth bound without deduplication; M8 oracle per construction, enum class observations unchanged, declared ordinals still resolve.",
        "Python 3.12 enum internals; generated enums get histories of depth <= 2 and a read-then-write survival phase.",
        "DESIGN.md section 6 C14",
        "E1",
    ),
    "C15": (
        "fault_enumeration",
        "exhaustive single-fault injection: a writer/reader whose k-th public call raises, for every k of the fault-free run, for every generated class reachable from every program instance, both entry modes; plus every validation-error path",
        "All fault points (deviation bound 1) of serialize and deserialize of every valid body's classes incl. nested struct and case-data classes, both entry modes; mode restored and the injected exception propagated unchanged.",
        "The mode property itself is not faulted; one fault per execution (the restoring path performs no faultable call).",
        "DESIGN.md section 6 C15",
        "E3 x E2",
    ),
    "C16": (
        "exploration",
        "bounded program x input enumeration: single-deviation neighbourhood of valid objects (every declaration-violating change at every field at every depth), classified by the reference semantics, executed on the generated serializer",
        "Every valid body x base objects x the full catalogue of single invalidating changes; serialize must raise SerializationError/ValueError and never return.",
        "A change is judged only when M10 refuses the changed object; constructor-rejected objects are counted, not judged.",
        "DESIGN.md section 6 C16",
        "E3",
    ),
    "C17": (
        "exploration",
        "bounded program enumeration: every grammar body the independent rule set M9 classifies invalid + every single rule-violating edit of a catalogue at every eligible site of every valid program, run through the real generator",
        "All M9-invalid bodies of the tier grammar and the complete single-edit neighbourhood (unit-level edits judged via M9, tree-level edits ill-formed by construction) must make the generator raise - a fresh generator object and one that has just generated the unedited tree.",
        "M9 is our transcription of the grammar rules (Appendix D); quick tier edits a stated subset of the base programs.",
        "DESIGN.md section 6 C17",
        "E3",
    ),
    "C18": (
        "exploration",
        "exhaustive enumeration of configurations: every os.walk directory order (choice tree) x iteration-order policies x pre-populated output states x repeated runs x six spellings of the input/output directories in-process, 8 hash seeds through the real protocol.py in subprocesses, then import checks in fresh interpreters; plus generate+import of every valid program of the spec universe",
        "All directory-order permutations and all stated iteration policies for each tree, byte-identical output required; every declared type checked in a fresh interpreter; every valid program of the E3 universe must generate and import.",
        "Hash seeds limited to a block of 8 per run (block rotated by VERIF_SEED); os.walk and set/sorted ordering are owned through module attributes.",
        "DESIGN.md section 6 C18",
        "E2 + subprocess",
    ),
    "C19": (
        "exploration",
        "bounded program x instance x operation-history enumeration on generated classes (setattr of every public name at every nesting level, caller-side list mutation, repeated serialize)",
        "Every valid body: every value gets the aliasing history on constructed and deserialized instances; the richest values get every history of length <= 2/3 over the full mutation menu; packets also every history of <= 3/4 steps over write(shared writer) / append to it / write(fresh writer) / serialize.",
        "Public names only; blobs not mutated by the caller; strings made history-unique so process-wide caches cannot mask a change.",
        "DESIGN.md section 6 C19",
        "E3",
    ),
    "C20": (
        "exploration",
        "exhaustive enumeration of configurations: for each spec tree (corpus, cross-file, root-file, minimal, module-name collision trees) the real protocol.py generate, then one fresh interpreter per first-import choice checking every documented dotted path and the identity of every public static name and generated class",
        "Every (tree, first-imported module) pair is explored (all generated modules in the thorough tier); resolution must be right and identical for every first import.",
        "Documented paths and degenerate name collisions as listed in DESIGN; Python 3.12 import system.",
        "DESIGN.md section 6 C20",
        "subprocess",
    ),
}

NOT_YET = {}


def main():
    props = [json.loads(l) for l in open(os.path.join(ROOT, "properties.jsonl"))]
    checks = []
    na = []
    for p in props:
        pid = p["id"]
        if pid in CHECKS:
            cat, tech, text, note, ref, engine = CHECKS[pid]
            checks.append(
                {
                    "property_id": pid,
                    "quick_cmd": f"./check {pid} --tier quick",
                    "thorough_cmd": f"./check {pid} --tier thorough",
                    "evidence_file": f"/verif/evidence/{pid}.json",
                    "replay_cmd_template": f"./check {pid} --replay {{path}}",
                    "engine": engine,
                    "level_claimed": {"category": cat, "text": text, "design_ref": ref},
                    "level_note": note,
                    "technique": tech,
                }
            )
        else:
            na.append(
                {
                    "property_id": pid,
                    "reason": NOT_YET.get(pid, "check under construction in this build phase (design in DESIGN.md section 6); not claimed until it runs clean on the unchanged tree"),
                }
            )
    manifest = {
        "version": 1,
        "setup_cmd": "chmod +x check tools/*.sh && /venv/bin/python -B -c 'import mc.cli, mc.explorer, mc.refmodels'",
        "hooks": {
            "guard": "EOLIB_PYTHON_VERIF",
            "enable": "no hooks: every seam is reachable from outside (module attributes, subclasses); checks import /repo's working tree directly",
            "baseline_off_cmd": BASELINE_OFF,
            "source_commits": [],
            "add_only": True,
        },
        "engines": [
            {"name": "E1", "path": "mc/explorer.py", "serves_properties": ["C04", "C05", "C06", "C09", "C13", "C14"], "kind_free_text": "explicit-state product explorer (real object x reference model), BFS to fixpoint/depth"},
            {"name": "E2", "path": "mc/choices.py", "serves_properties": ["C12", "C15", "C18"], "kind_free_text": "stateless choice-tree enumerator over environment answers and fault points"},
            {"name": "E3", "path": "mc/genpipe.py", "serves_properties": ["C01", "C02", "C03", "C15", "C16", "C17", "C19"], "kind_free_text": "bounded program (XML spec) x input enumerator with a reference interpreter"},
            {"name": "E4", "path": "mc/charsweep.py", "serves_properties": ["C04", "C05", "C06", "C07", "C08", "C09", "C10", "C11"], "kind_free_text": "exhaustive input-domain sweeps against closed-form references: the shared character alphabet (every code point, base x combining mark) lives in mc/charsweep.py, the numeric / byte-string sweeps in the property modules (mc/props/c07.py, c08.py, c10.py, c11.py, byte sweep in c05.py), sharded by mc/par.py"},
            {"name": "E6", "path": "mc/threads.py", "serves_properties": ["C05", "C07", "C08", "C09", "C10", "C11", "C12", "C13", "C14", "C15"], "kind_free_text": "stateless exploration of thread schedules on the real code: two real threads under a baton, scheduling points at every line event of repository code (sys.settrace), iterative context bounding (preemption bound 1-3), cooperative locks, modules reloaded per execution; cases in mc/threadcases.py"},
            {"name": "E5", "path": "mc/tlc.py", "serves_properties": ["C05", "C13"], "kind_free_text": "TLC on TLA+ models + conformance replay of every dumped edge on the real classes"},
        ],
        "checks": checks,
        "not_applicable": na,
        "notes": "All checks: cwd /verif, ./check <ID> --tier quick|thorough; VERIF_REPO overrides the repository path (default /repo); VERIF_SEED rotates extra enumerated windows only. Every check also repeats its quick tier in an interpreter started with -OO (assert statements and docstrings removed), concurrently with the main pass; violations seen only there are reported as VIOLATION lines of their own and their replay files re-execute under -OO. The checks of C05 and C07-C15 also explore thread schedules (E6). Exit 2 (HARNESS-ERROR) is never a verdict.",
    }
    with open(os.path.join(ROOT, "MANIFEST.json"), "w") as f:
        json.dump(manifest, f, indent=1)
        f.write("\n")


if __name__ == "__main__":
    main()
