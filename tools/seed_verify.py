#!/usr/bin/env python3
"""tools/seed_verify.py <src_dir> <k> <seed_id> <property> [<check id> ...]

Confirms an independently produced property-breaking change and files it under /verif/seeded/<seed_id>/:
  1. the patch applies to a scratch copy of /repo's current tree,
  2. the repository's own suite still gives 140 passed / 2 collection errors with it,
  3. the demonstration passes on the unchanged tree and fails with the patch,
  4. runs the named checks (default: the property's own) against the patched copy and records CAUGHT/MISSED.
Never touches /repo.
"""
import json
import os
import shutil
import subprocess
import sys
import tempfile

src, k, seed_id, prop = sys.argv[1:5]
checks = sys.argv[5:] or [prop]
ROOT = "/verif"
dst = os.path.join(ROOT, "seeded", seed_id)
patch = os.path.join(src, f"patch{k}.diff")
demo = os.path.join(src, f"demo{k}.py")
notes = os.path.join(src, f"notes{k}.md")
env = dict(os.environ, PYTHONDONTWRITEBYTECODE="1")


def sh(cmd, cwd=None, extra=None):
    e = dict(env, **(extra or {}))
    p = subprocess.run(cmd, shell=True, cwd=cwd, env=e, capture_output=True, text=True)
    return p.returncode, (p.stdout + p.stderr)


def copy_repo():
    d = tempfile.mkdtemp(prefix="seedwork-", dir="/tmp")
    sh(f"rsync -a --exclude .git --exclude __pycache__ /repo/ {d}/")
    return d


clean = copy_repo()
mut = copy_repo()
try:
    rc, out = sh(f"patch -p1 -s < {patch}", cwd=mut)
    assert rc == 0, f"patch does not apply: {out}"
    rc, out = sh(f"PYTHONPATH={mut}/src:{mut} /venv/bin/python -m pytest -q -p no:cacheprovider --continue-on-collection-errors tests 2>&1 | tail -1", cwd=mut)
    tests_line = out.strip()
    assert "140 passed" in tests_line, tests_line
    rc_clean, _ = sh(f"/venv/bin/python -B {demo} {clean}", cwd="/tmp")
    rc_mut, out_mut = sh(f"/venv/bin/python -B {demo} {mut}", cwd="/tmp")
    assert rc_clean == 0, "demo fails on the unchanged tree"
    assert rc_mut != 0, "demo passes with the patch"
    results = {}
    for cid in checks:
        rc, out = sh(f"./check {cid} --tier quick", cwd=ROOT, extra={"VERIF_REPO": mut})
        line = next((l for l in out.splitlines() if " violated" in l), "")
        results[cid] = {"exit": rc, "verdict": "CAUGHT" if rc == 1 and "VIOLATION property=" in out else ("MISSED" if rc == 0 else f"ERROR({rc})"), "first_violation": line.strip()[:400]}
    os.makedirs(dst, exist_ok=True)
    shutil.copy(patch, os.path.join(dst, "patch.diff"))
    shutil.copy(demo, os.path.join(dst, "demo.py"))
    note_text = open(notes).read() if os.path.exists(notes) else ""
    meta = {
        "seed": seed_id,
        "property": prop,
        "origin": "independent sub-agent given only the property text and a scratch worktree",
        "needs_to_manifest": note_text.strip(),
        "confirmed": {
            "patch_applies_to_repo_tree": True,
            "repo_suite_with_patch": tests_line,
            "demo_exit_unchanged": rc_clean,
            "demo_exit_patched": rc_mut,
            "demo_failure_tail": out_mut.strip().splitlines()[-1][:300] if out_mut.strip() else "",
        },
        "ran": [f"patch -p1 < patch.diff (scratch copy of /repo)", "pytest tests (140 passed, 2 collection errors expected)", "demo.py <clean copy> / <patched copy>"] + [f"VERIF_REPO=<patched copy> ./check {c} --tier quick" for c in checks],
        "checks": results,
    }
    with open(os.path.join(dst, "meta.json"), "w") as f:
        json.dump(meta, f, indent=1)
    print(seed_id, {c: r["verdict"] for c, r in results.items()}, "|", tests_line)
finally:
    shutil.rmtree(clean, ignore_errors=True)
    shutil.rmtree(mut, ignore_errors=True)
