#!/usr/bin/env python3
"""Prints the prompt given to an independent sub-agent for seeding a property-breaking change.
Only the property text and environment facts are included - nothing about /verif's checks."""
import json, sys
pid, wt, out = sys.argv[1], sys.argv[2], sys.argv[3]
p = next(json.loads(l) for l in open('/verif/properties.jsonl') if json.loads(l)['id'] == pid)
print(f"""You are helping test a verification effort for the Python library Cirras/eolib-python (Endless Online protocol library: EO number/string codecs, chunked reader/writer, packet encryption helpers, and an XML-spec-driven serializer code generator).

You have your own scratch git worktree of the repository at {wt} . Work ONLY inside {wt} and write your deliverables to {out} (create it). Never touch /repo or /verif, and do not read anything under /verif.

THE PROPERTY that the library is supposed to satisfy:

  Title: {p['title']}
  Statement: {p['statement']}
  Quantified over: {p['quantifier']['text']}
  Relevant files: {', '.join(p['anchors']['files'])}

YOUR TASK: produce TWO different, independent, realistic changes (bugs) to the library source in {wt} (under src/eolib or protocol_code_generator - NOT in tests), each of which on its own BREAKS the property above, while
  (a) the code still imports/compiles, and
  (b) the repository's existing test suite still passes exactly as before (see below), and
  (c) the bug needs something SPECIFIC to manifest - a particular multi-step sequence of operations, an unusual input or boundary value, a particular random-draw outcome, a fault at a particular point, a particular nesting/shape of specification, or two cooperating code sites that each look fine alone - NOT something every ordinary use would expose at once. Think of the kind of regression a plausible refactoring or "optimisation" could introduce (cursor/offset logic, off-by-one at a boundary, a cache that goes stale, a flag not restored on one path, an early return, a changed default, a guard applied in one place but not its mirror).
  Make the two changes different in kind (different code sites / mechanisms).

For EACH change k in (1, 2) deliver in {out}:
  - patch{{k}}.diff : `git diff` of the change against the worktree HEAD (apply-able with `git apply` / `patch -p1` at the repo root). Only library source files; keep it small.
  - demo{{k}}.py : a small standalone program (plain python, exit code 0 = property holds for the demonstrated case, non-zero / assertion failure = property broken) that FAILS with the change applied and PASSES on the unchanged code. It takes the repo root as argv[1] (default {wt}) and must put <root>/src and <root> at the front of sys.path itself.
  - notes{{k}}.md : 5-10 lines: what the change is, why it breaks the property, exactly what is needed for it to manifest, and why the existing tests do not notice.
Revert the worktree to HEAD between the two changes (git -C {wt} checkout -- .) so the patches are independent, and leave the worktree clean (reverted) at the end.

ENVIRONMENT FACTS (no network; nothing can be installed):
  - Interpreter: /venv/bin/python (3.12). The package is installed in editable mode pointing at /repo/src, so ALWAYS run things for your worktree with PYTHONPATH={wt}/src:{wt} so that your copy is the one imported; verify with e.g. `PYTHONPATH={wt}/src:{wt} /venv/bin/python -c "import eolib.data.eo_numeric_limits as m; print(m.__file__)"` (see next point about how to import).
  - In this checkout the eo-protocol XML submodule is EMPTY, so `src/eolib/protocol/_generated` does not exist and `import eolib` raises ImportError (ModuleNotFoundError: eolib.protocol._generated). Library modules can still be used: do `try: import eolib` / `except ImportError: pass` first and then `from eolib.data.eo_reader import EoReader` etc. (the failed attempt leaves the sub-modules loaded), or import after generating code (next point).
  - To exercise the code generator / generated serializers, write your own small eo-protocol XML tree (files <dir>/net/protocol.xml, <dir>/net/client/protocol.xml, <dir>/net/server/protocol.xml, <dir>/map/protocol.xml, <dir>/pub/protocol.xml, <dir>/pub/server/protocol.xml; root element <protocol>; net/protocol.xml must define enums PacketFamily and PacketAction; elements: <enum name type><value name>N</value></enum>, <struct name>, <packet family action>, with instructions <field name type [length] [padded] [optional]>, <array name type [length] [optional] [delimited] [trailing-delimiter]>, <length name type [offset]>, <dummy type>v</dummy>, <switch field><case value|default="true">...</case></switch>, <chunked>, <break/>) and run the generator programmatically: `from pathlib import Path; from protocol_code_generator.generate.code_generator import ProtocolCodeGenerator; ProtocolCodeGenerator(Path(xml_dir)).generate(Path(out_dir))` where out_dir should be <root>/src/eolib/protocol/_generated inside a TEMPORARY COPY of the repo root (so the worktree stays clean; _generated is git-ignored anyway), after which `import eolib` works from that copy. Reading protocol_code_generator/ tells you the grammar.
  - Existing test suite: `cd {wt} && PYTHONPATH={wt}/src:{wt} /venv/bin/python -m pytest -q -p no:cacheprovider --continue-on-collection-errors tests` . On the unchanged code this gives exactly: 140 passed and 2 collection errors (tests/data/test_eo_reader.py and tests/protocol/test_protocol_enum_meta.py cannot be collected because `import eolib` fails, see above). With each of your changes applied it must STILL give 140 passed, 2 errors - check this yourself and say so in the notes. (Do not generate _generated inside the worktree while running this, it would change the result.)
  - Use `python -B` / PYTHONDONTWRITEBYTECODE=1 to avoid leaving __pycache__ around; clean up temporary copies you make under /tmp when done.

Before finishing, verify for each change: patch applies cleanly to a clean worktree; tests: 140 passed 2 errors; demo fails with patch, passes without. Report briefly what you produced.""")
