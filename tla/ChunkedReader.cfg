CONSTANTS MaxLen = 4
MaxRead = 5
INIT Init
NEXT Next
INVARIANTS TypeOK InBounds NoBreakRead
