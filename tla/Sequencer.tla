---- MODULE Sequencer ----
EXTENDS Naturals
CONSTANT Starts
VARIABLES counterA, counterB, start, n, last

vars == <<counterA, counterB, start, n, last>>

Init == /\ counterA = 0 /\ counterB = 0 /\ n = 0
        /\ start \in Starts
        /\ last = [op |-> "init", arg |-> start, outA |-> 0, outB |-> 0]

\* both peers (client and server side sequencers) answer the same request
NextSeq == /\ last' = [op |-> "next", arg |-> 0, outA |-> start + counterA, outB |-> start + counterB]
           /\ counterA' = (counterA + 1) % 10
           /\ counterB' = (counterB + 1) % 10
           /\ n' = (n + 1) % 10
           /\ UNCHANGED start

\* a new start is installed on both peers (INIT / PING / ACCOUNT_REPLY); counters untouched
SetStart(s) == /\ start' = s
               /\ last' = [op |-> "set", arg |-> s, outA |-> 0, outB |-> 0]
               /\ UNCHANGED <<counterA, counterB, n>>

Next == NextSeq \/ \E s \in Starts : SetStart(s)
Spec == Init /\ [][Next]_vars

CounterIsN == counterA = n /\ counterB = n
Lockstep   == last.op = "next" => last.outA = last.outB
\* the value just returned is the start in force plus the number of earlier requests mod 10
Formula    == last.op = "next" => last.outA = start + ((n + 9) % 10)
====
