---- MODULE ChunkedReader ----
EXTENDS Naturals, Sequences
CONSTANTS MaxLen, MaxRead
VARIABLES data, pos, chunked, chunkStart, last

vars == <<data, pos, chunked, chunkStart, last>>
Byte == {"D", "B"}
DataStrings == UNION { [1..n -> Byte] : n \in 0..MaxLen }

Min(a, b) == IF a < b THEN a ELSE b
Len0 == Len(data)
\* positions are 0-based offsets; data[i+1] is the byte at offset i
BreaksFrom(s) == { i \in s..(Len0 - 1) : data[i + 1] = "B" }
NextBreak == IF BreaksFrom(chunkStart) = {} THEN Len0
             ELSE CHOOSE i \in BreaksFrom(chunkStart) : \A j \in BreaksFrom(chunkStart) : i <= j
Remaining == IF chunked
             THEN (IF NextBreak > pos THEN NextBreak - pos ELSE 0)
             ELSE Len0 - pos

Init == /\ data \in DataStrings
        /\ pos = 0 /\ chunked = FALSE /\ chunkStart = 0
        /\ last = [op |-> "init", arg |-> 0, out |-> <<>>]

Read(k) == LET n == Min(k, Remaining) IN
           /\ last' = [op |-> "read", arg |-> k, out |-> SubSeq(data, pos + 1, pos + n)]
           /\ pos' = pos + n
           /\ UNCHANGED <<data, chunked, chunkStart>>

SetMode(b) == /\ chunked' = b
              /\ last' = [op |-> "mode", arg |-> IF b THEN 1 ELSE 0, out |-> <<>>]
              /\ UNCHANGED <<data, pos, chunkStart>>

NextChunk == /\ chunked
             /\ LET p == IF NextBreak < Len0 THEN NextBreak + 1 ELSE NextBreak IN
                /\ pos' = p /\ chunkStart' = p
             /\ last' = [op |-> "next_chunk", arg |-> 0, out |-> <<>>]
             /\ UNCHANGED <<data, chunked>>

Next == (\E k \in 0..MaxRead : Read(k)) \/ (\E b \in BOOLEAN : SetMode(b)) \/ NextChunk
Spec == Init /\ [][Next]_vars

TypeOK == /\ pos \in 0..Len0 /\ chunkStart \in 0..Len0 /\ chunked \in BOOLEAN
InBounds == pos <= Len0 /\ Remaining >= 0 /\ pos + Remaining <= Len0
\* in chunked mode a read never returns a break byte
NoBreakRead == (last.op = "read" /\ chunked) => \A i \in 1..Len(last.out) : last.out[i] # "B"
====
