CONSTANT Starts = {0, 7, 240, 1756}
INIT Init
NEXT Next
INVARIANTS CounterIsN Lockstep Formula
